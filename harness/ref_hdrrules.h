#ifndef REF_HDRRULES_H
#define REF_HDRRULES_H
#include <stdint.h>
#include <stddef.h>
int ref_must_reject(const uint8_t *B, size_t n);
int ref_signature_at(const uint8_t *B, size_t n);
#endif
