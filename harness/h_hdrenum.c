/* In-process header enumerators for C11 (path/name invariant, exhaustive alphabet) and C12 (integrity rules,
 * exhaustive substitutions).  Headers are parsed through lha_reader_next_file on an in-memory callback stream.
 *
 *   h_hdrenum c11 MAXLEN SHARD NSHARDS       all strings over {'.','/','\\',0xFF,NUL,'a'} of length 1..MAXLEN whose
 *                                            index % NSHARDS == SHARD, through every channel and OS type
 *   h_hdrenum c11r SEED N                    N random longer strings (alphabet plus other bytes) through every channel
 *   h_hdrenum c12 FILE                       FILE = records: u32 hlen, u32 alen, u8 archive[alen]  (first header = archive[0..hlen))
 *                                            for each: all 255 substitutions at every byte < hlen, every truncation length,
 *                                            and the archive as given
 * Output: "WITNESS ..." lines (at most 40) and one "SUMMARY ..." line.
 */
#define _GNU_SOURCE
#include <stdio.h>
#include <stdlib.h>
#include <string.h>
#include <stdint.h>
#include <signal.h>
#include <unistd.h>
#include "lha_reader.h"
#include "ref_hdrrules.h"
#include "verif_hooks.h"

typedef struct { const uint8_t *p; size_t len, pos; } Mem;
static int m_read(void *h, void *buf, size_t n) { Mem *m = h; size_t k = m->len - m->pos; if (k > n) k = n; memcpy(buf, m->p + m->pos, k); m->pos += k; return (int) k; }
static int m_skip(void *h, size_t n) { Mem *m = h; if (n > m->len - m->pos) { m->pos = m->len; return 0; } m->pos += n; return 1; }
static const LHAInputStreamType memtype = { m_read, m_skip, NULL };

/* the input being parsed, so that a sanitizer report / abort can be attributed to it */
static const uint8_t *cur_arc; static size_t cur_len; static int dumped;
static void dump_current(void)
{
	static const char hexd[] = "0123456789abcdef"; char buf[2]; size_t i;
	if (dumped || !cur_arc) return;
	dumped = 1;
	if (write(2, "\nCURRENT archive=", 18) < 0) return;
	for (i = 0; i < cur_len; ++i) { buf[0] = hexd[cur_arc[i] >> 4]; buf[1] = hexd[cur_arc[i] & 15]; if (write(2, buf, 2) < 0) return; }
	if (write(2, "\n", 1) < 0) return;
}
void __asan_on_error(void) { dump_current(); }
static void on_abort(int sig) { (void) sig; dump_current(); signal(SIGABRT, SIG_DFL); }

static unsigned long witnesses;
static void witness(const char *what, const uint8_t *a, size_t n, const char *extra)
{
	size_t i;
	if (witnesses++ >= 40) return;
	printf("WITNESS %s %s archive=", what, extra);
	for (i = 0; i < n; ++i) printf("%02x", a[i]);
	printf("\n");
}

/* ---------------------------------------------------------------- helpers to build headers */
static uint16_t crc16_bits(const uint8_t *p, size_t n)
{
	unsigned c = 0; size_t i; int k;
	for (i = 0; i < n; ++i) { c ^= p[i]; for (k = 0; k < 8; ++k) c = (c & 1) ? ((c >> 1) ^ 0xA001) : (c >> 1); }
	return (uint16_t) c;
}
static void p16(uint8_t *p, unsigned v) { p[0] = v & 0xff; p[1] = (v >> 8) & 0xff; }
static void p32(uint8_t *p, unsigned long v) { p[0] = v & 0xff; p[1] = (v >> 8) & 0xff; p[2] = (v >> 16) & 0xff; p[3] = (v >> 24) & 0xff; }

typedef struct { uint8_t type; const uint8_t *d; size_t n; } XH;

/* level 0/1 header with in-header name, optional ext headers (level 1); returns length */
static size_t build_l01(uint8_t *o, int level, const char *method, const uint8_t *name, size_t namelen, int os,
                        const XH *x, int nx, int unix_area_perms)
{
	size_t n = 0, i, base; unsigned sum = 0; int k;
	o[n++] = 0; o[n++] = 0; memcpy(o + n, method, 5); n += 5;
	p32(o + n, 0); n += 4; p32(o + n, 0); n += 4; p32(o + n, 0x21000000UL); n += 4;
	o[n++] = 0x20; o[n++] = (uint8_t) level; o[n++] = (uint8_t) namelen; memcpy(o + n, name, namelen); n += namelen;
	p16(o + n, 0); n += 2;
	if (level == 0) {
		if (unix_area_perms >= 0) { o[n++] = 'U'; o[n++] = 0; p32(o + n, 5); n += 4; p16(o + n, unix_area_perms); n += 2; p16(o + n, 0); n += 2; p16(o + n, 0); n += 2; }
	} else {
		o[n++] = (uint8_t) os;
		p16(o + n, nx ? 1 + x[0].n + 2 : 0); n += 2;
	}
	base = n;
	o[0] = (uint8_t) (base - 2);
	if (level == 1) {
		unsigned long total = 0;
		for (k = 0; k < nx; ++k) {
			o[n++] = x[k].type; memcpy(o + n, x[k].d, x[k].n); n += x[k].n;
			p16(o + n, k + 1 < nx ? 1 + x[k + 1].n + 2 : 0); n += 2;
			total += 1 + x[k].n + 2;
		}
		p32(o + 7, total);
	}
	for (i = 2; i < base; ++i) sum += o[i];
	o[1] = (uint8_t) sum;
	return n;
}

static size_t build_l23(uint8_t *o, int level, const char *method, int os, const XH *x, int nx)
{
	size_t n = 0; int k; int fs = level == 3 ? 4 : 2;
	p16(o, level == 3 ? 4 : 0); n = 2; memcpy(o + n, method, 5); n += 5;
	p32(o + n, 0); n += 4; p32(o + n, 0); n += 4; p32(o + n, 7); n += 4;
	o[n++] = 0x20; o[n++] = (uint8_t) level; p16(o + n, 0); n += 2; o[n++] = (uint8_t) os;
	if (level == 3) { p32(o + n, 0); n += 4; }
	if (fs == 2) p16(o + n, nx ? 1 + x[0].n + 2 : 0); else p32(o + n, nx ? 1 + x[0].n + 4 : 0);
	n += fs;
	for (k = 0; k < nx; ++k) {
		o[n++] = x[k].type; memcpy(o + n, x[k].d, x[k].n); n += x[k].n;
		if (fs == 2) p16(o + n, k + 1 < nx ? 1 + x[k + 1].n + 2 : 0); else p32(o + n, k + 1 < nx ? 1 + x[k + 1].n + 4 : 0);
		n += fs;
	}
	if (level == 3) p32(o + 24, n); else p16(o, n);
	return n;
}

/* ---------------------------------------------------------------- C11 */
static unsigned long c11_parsed, c11_returned, c11_rejected, c11_with_path, c11_violations, c11_dotdot_in, c11_changed;

static int bad_component(const char *c, size_t n) { return n == 0 || (n == 1 && c[0] == '.') || (n == 2 && c[0] == '.' && c[1] == '.'); }

static void c11_check(const uint8_t *arc, size_t n, const char *chan)
{
	Mem m; LHAInputStream *s; LHAReader *r; LHAFileHeader *h;
	m.p = arc; m.len = n; m.pos = 0; cur_arc = arc; cur_len = n;
	s = lha_input_stream_new(&memtype, &m); r = lha_reader_new(s);
	++c11_parsed;
	h = lha_reader_next_file(r);
	if (h == NULL) ++c11_rejected;
	else {
		int bad = 0; char why[64] = "";
		++c11_returned;
		if (h->filename && strchr(h->filename, '/')) { bad = 1; strcpy(why, "slash-in-filename"); }
		if (h->path) {
			const char *p = h->path, *q;
			++c11_with_path;
			if (*p == '/') ++p;
			while ((q = strchr(p, '/')) != NULL) {
				if (bad_component(p, (size_t) (q - p))) { bad = 1; strcpy(why, q == p ? "empty-component" : (q - p == 1 ? "dot-component" : "dotdot-component")); }
				p = q + 1;
			}
		}
		if (bad) { char ex[128]; ++c11_violations; snprintf(ex, sizeof ex, "channel=%s rule=%s", chan, why); witness("C11", arc, n, ex); }
	}
	lha_reader_free(r); lha_input_stream_free(s);
}

static const uint8_t ALPHA[6] = { '.', '/', '\\', 0xff, 0x00, 'a' };
static const int OSES[5] = { 0, 'M', 'U', 'A', 'm' };
static const uint8_t PERM_LINK[2] = { 0xff, 0xa1 };    /* 0120777 */

static void c11_string(const uint8_t *s, size_t L)
{
	uint8_t arc[600]; size_t n; int oi; XH x[3]; size_t k;
	static const uint8_t fname[] = "f";
	if (memmem(s, L, "..", 2)) ++c11_dotdot_in;
	/* level-0 in-header name (OS type is fixed by the format) */
	n = build_l01(arc, 0, "-lh0-", s, L, 0, NULL, 0, -1); arc[n++] = 0; c11_check(arc, n, "L0-name");
	n = build_l01(arc, 0, "-lhd-", s, L, 0, NULL, 0, -1); arc[n++] = 0; c11_check(arc, n, "L0-name-dir");
	n = build_l01(arc, 0, "-lhd-", s, L, 0, NULL, 0, 0120777); arc[n++] = 0; c11_check(arc, n, "L0-name-symlink");
	for (oi = 0; oi < 5; ++oi) {
		int os = OSES[oi];
		n = build_l01(arc, 1, "-lh0-", s, L, os, NULL, 0, -1); arc[n++] = 0; c11_check(arc, n, "L1-name");
		x[0].type = 1; x[0].d = s; x[0].n = L;
		n = build_l01(arc, 1, "-lh0-", (const uint8_t *) "x", 1, os, x, 1, -1); arc[n++] = 0; c11_check(arc, n, "L1-name+ext-filename");
		n = build_l01(arc, 1, "-lh0-", s, L, os, x, 1, -1); arc[n++] = 0; c11_check(arc, n, "L1-name(s)+ext-filename(s)");
		n = build_l23(arc, 2, "-lh0-", os, x, 1); arc[n++] = 0; c11_check(arc, n, "L2-ext-filename");
		n = build_l23(arc, 3, "-lh0-", os, x, 1); arc[n++] = 0; c11_check(arc, n, "L3-ext-filename");
		x[0].type = 2; x[1].type = 1; x[1].d = fname; x[1].n = 1;
		n = build_l23(arc, 2, "-lh0-", os, x, 2); arc[n++] = 0; c11_check(arc, n, "L2-ext-path+name");
		n = build_l23(arc, 3, "-lhd-", os, x, 1); arc[n++] = 0; c11_check(arc, n, "L3-ext-path-dir");
		x[0].type = 1; x[0].d = fname; x[0].n = 1; x[1].type = 2; x[1].d = s; x[1].n = L;
		n = build_l01(arc, 1, "-lh0-", (const uint8_t *) "d\\x", 3, os, x, 2, -1); arc[n++] = 0; c11_check(arc, n, "L1-name+ext-name+ext-path");
		/* directory entries (not links) that carry a file-name header as well: with a path header, with permission bits of a
		 * directory, with the name alone, at levels 1-3 */
		{
			static const uint8_t dpath[2] = { 'd', 0xff };
			static const uint8_t PERM_DIR[2] = { 0xed, 0x41 };    /* 040755 */
			x[0].type = 2; x[0].d = dpath; x[0].n = 2; x[1].type = 1; x[1].d = s; x[1].n = L; x[2].type = 0x50; x[2].d = PERM_DIR; x[2].n = 2;
			n = build_l23(arc, 2, "-lhd-", os, x, 2); arc[n++] = 0; c11_check(arc, n, "L2-dir-ext-path+ext-filename");
			n = build_l23(arc, 3, "-lhd-", os, x, 2); arc[n++] = 0; c11_check(arc, n, "L3-dir-ext-path+ext-filename");
			n = build_l23(arc, 2, "-lhd-", os, x, 3); arc[n++] = 0; c11_check(arc, n, "L2-dir-ext-path+ext-filename+perms");
			n = build_l01(arc, 1, "-lhd-", (const uint8_t *) "d\\", 2, os, x + 1, 1, -1); arc[n++] = 0; c11_check(arc, n, "L1-dir-name+ext-filename");
			n = build_l23(arc, 2, "-lhd-", os, x + 1, 1); arc[n++] = 0; c11_check(arc, n, "L2-dir-ext-filename-only");
			n = build_l23(arc, 2, "-lhd-", os, x + 1, 2); arc[n++] = 0; c11_check(arc, n, "L2-dir-ext-filename+perms");
		}
		/* path and filename both taken from s, split at every position */
		for (k = 0; k <= L; ++k) {
			if (k == 0 || k == L) continue;
			x[0].type = 2; x[0].d = s; x[0].n = k; x[1].type = 1; x[1].d = s + k; x[1].n = L - k;
			n = build_l23(arc, 2, "-lh0-", os, x, 2); arc[n++] = 0; c11_check(arc, n, "L2-ext-path|ext-filename-split");
		}
		/* symlink forms: '|' inserted at every position, whole string in the filename header, or split across path and name */
		for (k = 0; k <= L; ++k) {
			uint8_t t[40]; size_t tl = 0, j;
			memcpy(t, s, k); tl = k; t[tl++] = '|'; memcpy(t + tl, s + k, L - k); tl += L - k;
			x[0].type = 0x50; x[0].d = PERM_LINK; x[0].n = 2; x[1].type = 1; x[1].d = t; x[1].n = tl;
			n = build_l23(arc, 2, "-lhd-", os, x, 2); arc[n++] = 0; c11_check(arc, n, "L2-symlink-in-filename");
			for (j = 1; j < tl; j += (tl > 4 ? 2 : 1)) {
				x[1].type = 2; x[1].d = t; x[1].n = j; x[2].type = 1; x[2].d = t + j; x[2].n = tl - j;
				n = build_l23(arc, 2, "-lhd-", os, x, 3); arc[n++] = 0; c11_check(arc, n, "L2-symlink-split-path/name");
			}
			if (oi == 0) { n = build_l01(arc, 1, "-lhd-", t, tl, 'U', x, 1, -1); arc[n++] = 0; c11_check(arc, n, "L1-symlink-in-name"); }
		}
	}
}

static uint64_t sm_state;
static uint64_t sm(void) { uint64_t z = (sm_state += 0x9E3779B97F4A7C15ULL); z = (z ^ (z >> 30)) * 0xBF58476D1CE4E5B9ULL; z = (z ^ (z >> 27)) * 0x94D049BB133111EBULL; return z ^ (z >> 31); }

/* ---------------------------------------------------------------- C12 */
static unsigned long c12_mutants, c12_must_reject, c12_rule[16], c12_lib_rejected, c12_violations, c12_sig_lost, c12_not_ended;

static void c12_eval(const uint8_t *arc, size_t n, const char *kind)
{
	Mem m; LHAInputStream *s; LHAReader *r; LHAFileHeader *h; int rule;
	++c12_mutants;
	if (!ref_signature_at(arc, n)) { ++c12_sig_lost; return; }   /* the scanner would treat these bytes as a stub, not as a header */
	rule = ref_must_reject(arc, n);
	m.p = arc; m.len = n; m.pos = 0; cur_arc = arc; cur_len = n;
	s = lha_input_stream_new(&memtype, &m); r = lha_reader_new(s);
	h = lha_reader_next_file(r);
	if (h == NULL) ++c12_lib_rejected;
	if (rule) {
		++c12_must_reject; ++c12_rule[rule];
		if (h != NULL) { char ex[96]; ++c12_violations; snprintf(ex, sizeof ex, "kind=%s rule=%d returned-a-header", kind, rule); witness("C12", arc, n, ex); }
		else {
			/* iteration must have ended: the valid member that follows is not returned either */
			if (lha_reader_next_file(r) != NULL || lha_reader_next_file(r) != NULL) {
				char ex[96]; ++c12_not_ended; ++c12_violations; snprintf(ex, sizeof ex, "kind=%s rule=%d iteration-continued", kind, rule);
				witness("C12", arc, n, ex);
			}
		}
	}
	lha_reader_free(r); lha_input_stream_free(s);
}

int main(int argc, char **argv)
{
	if (argc < 2) return 2;
	signal(SIGABRT, on_abort);
	if (!strcmp(argv[1], "c11") && argc >= 5) {
		int maxlen = atoi(argv[2]); unsigned long shard = strtoul(argv[3], NULL, 10), nsh = strtoul(argv[4], NULL, 10), idx = 0, strings = 0;
		int L;
		for (L = 1; L <= maxlen; ++L) {
			unsigned long total = 1, v; int i;
			for (i = 0; i < L; ++i) total *= 6;
			for (v = 0; v < total; ++v, ++idx) {
				uint8_t s[16]; unsigned long t = v;
				if (idx % nsh != shard) continue;
				for (i = 0; i < L; ++i) { s[i] = ALPHA[t % 6]; t /= 6; }
				c11_string(s, (size_t) L); ++strings;
			}
		}
		printf("SUMMARY mode=c11 strings=%lu parsed=%lu returned=%lu rejected=%lu with_path=%lu strings_with_dotdot=%lu violations=%lu\n",
		       strings, c11_parsed, c11_returned, c11_rejected, c11_with_path, c11_dotdot_in, c11_violations);
	} else if (!strcmp(argv[1], "c11r") && argc >= 4) {
		unsigned long n = strtoul(argv[3], NULL, 10), k;
		sm_state = strtoull(argv[2], NULL, 10);
		for (k = 0; k < n; ++k) {
			uint8_t s[24]; size_t L = 8 + sm() % 13, i;
			for (i = 0; i < L; ++i) { uint64_t r = sm(); s[i] = (r & 7) < 6 ? ALPHA[(r >> 3) % 6] : (uint8_t) (r >> 8); }
			c11_string(s, L);
		}
		printf("SUMMARY mode=c11r strings=%lu parsed=%lu returned=%lu rejected=%lu with_path=%lu strings_with_dotdot=%lu violations=%lu\n",
		       n, c11_parsed, c11_returned, c11_rejected, c11_with_path, c11_dotdot_in, c11_violations);
	} else if (!strcmp(argv[1], "c12") && argc >= 3) {
		FILE *f = fopen(argv[2], "rb"); uint32_t hlen, alen; unsigned long bases = 0; int i;
		if (!f) return 2;
		while (fread(&hlen, 4, 1, f) == 1 && fread(&alen, 4, 1, f) == 1) {
			uint8_t *a = malloc(alen + 1), *w = malloc(alen + 1); size_t p; unsigned v;
			if (fread(a, 1, alen, f) != alen) return 2;
			++bases;
			c12_eval(a, alen, "as-given");
			if (hlen > 0) {
				for (p = 0; p < hlen && p < alen; ++p) {
					memcpy(w, a, alen);
					for (v = 0; v < 256; ++v) {
						if (v == a[p]) continue;
						w[p] = (uint8_t) v;
						c12_eval(w, alen, "substitution");
					}
				}
				if (a[20] <= 1) {
					/* level 0/1: the same substitutions with the header's checksum byte recomputed afterwards, so that the rule the
					 * substitution breaks (level, method, lengths, name rules) is what has to reject it, not the checksum */
					for (p = 0; p < hlen && p < alen; ++p) {
						if (p == 1) continue;
						for (v = 0; v < 256; ++v) {
							unsigned sum = 0; size_t q;
							if (v == a[p]) continue;
							memcpy(w, a, alen);
							w[p] = (uint8_t) v;
							if ((size_t) 2 + w[0] > alen) continue;
							for (q = 0; q < w[0]; ++q) sum += w[2 + q];
							w[1] = (uint8_t) sum;
							c12_eval(w, alen, "substitution+checksum-repaired");
						}
					}
				}
				for (p = 0; p < alen; ++p) {
					/* exact-size copy so that an over-read of a truncated input is visible */
					uint8_t *t = malloc(p ? p : 1); memcpy(t, a, p);
					c12_eval(t, p, "truncation");
					free(t);
				}
			}
			free(a); free(w);
		}
		fclose(f);
		printf("SUMMARY mode=c12 bases=%lu mutants=%lu signature_lost=%lu must_reject=%lu lib_rejected=%lu violations=%lu not_ended=%lu rules=",
		       bases, c12_mutants, c12_sig_lost, c12_must_reject, c12_lib_rejected, c12_violations, c12_not_ended);
		for (i = 1; i <= 12; ++i) printf("%s%d:%lu", i > 1 ? "," : "", i, c12_rule[i]);
		printf("\n");
	} else if (!strcmp(argv[1], "c07burst") && argc >= 5) {
		/* C07: every burst of span 1..16 bits (first and last bit flipped, any pattern between) starting at bit offsets [lo,hi)
		 * of the 6 data bytes of a stored member; lha_reader_check must report failure for each.  Bits are numbered in the
		 * order in which CRC-16/ARC consumes them (least significant bit of each byte first): that is the order in which
		 * the burst guarantee of a reflected CRC holds. */
		FILE *f = fopen(argv[2], "rb"); uint32_t hlen, alen; unsigned lo = atoi(argv[3]), hi = atoi(argv[4]), o, sp;
		unsigned long bursts = 0, accepted = 0; uint8_t *a, *w;
		if (!f || fread(&hlen, 4, 1, f) != 1 || fread(&alen, 4, 1, f) != 1) return 2;
		a = malloc(alen); w = malloc(alen);
		if (fread(a, 1, alen, f) != alen) return 2;
		fclose(f);
		for (o = lo; o < hi && o < 48; ++o) for (sp = 1; sp <= 16 && o + sp <= 48; ++sp) {
			unsigned long inner, ninner = sp >= 2 ? (1UL << (sp - 2)) : 1;
			for (inner = 0; inner < ninner; ++inner) {
				unsigned long pat = sp == 1 ? 1 : (1UL | (inner << 1) | (1UL << (sp - 1))); unsigned b;
				Mem m; LHAInputStream *st; LHAReader *r; LHAFileHeader *h; int res;
				memcpy(w, a, alen);
				for (b = 0; b < sp; ++b) if ((pat >> b) & 1) { unsigned bit = o + b; w[hlen + bit / 8] ^= (uint8_t) (1u << (bit % 8)); }
				m.p = w; m.len = alen; m.pos = 0; cur_arc = w; cur_len = alen;
				st = lha_input_stream_new(&memtype, &m); r = lha_reader_new(st);
				h = lha_reader_next_file(r);
				if (!h) { fprintf(stderr, "base archive not parsed\n"); return 2; }
				res = lha_reader_check(r, NULL, NULL);
				++bursts;
				if (res) { char ex[64]; ++accepted; snprintf(ex, sizeof ex, "offset=%u span=%u pattern=%lx", o, sp, pat); witness("C07burst", w, alen, ex); }
				lha_reader_free(r); lha_input_stream_free(st);
			}
		}
		printf("SUMMARY mode=c07burst bursts=%lu accepted=%lu\n", bursts, accepted);
	} else return 2;
	return 0;
}
