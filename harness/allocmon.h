#ifndef ALLOCMON_H
#define ALLOCMON_H
#include <stddef.h>
extern int allocmon_active;
extern long allocmon_nalloc, allocmon_fail_at, allocmon_failed_count, allocmon_live_blocks, allocmon_untracked_frees;
extern size_t allocmon_live_bytes, allocmon_peak_bytes;
void allocmon_reset(void);
extern unsigned long allocmon_file_reads, allocmon_file_seeks;
extern void (*allocmon_step_hook)(void);
#endif
