/* libFuzzer target (thorough tier of C08): the bytes are an archive; walk it through the reader API from an in-memory
 * callback stream, alternating what is done with each member (nothing / read 1 / read all / check), each entry at most once. */
#include <stdint.h>
#include <stddef.h>
#include <string.h>
#include "lha_reader.h"

typedef struct { const uint8_t *p; size_t len, pos; } Mem;
static int m_read(void *h, void *buf, size_t n) { Mem *m = h; size_t k = m->len - m->pos; if (k > n) k = n; memcpy(buf, m->p + m->pos, k); m->pos += k; return (int) k; }
static int m_skip(void *h, size_t n) { Mem *m = h; if (n > m->len - m->pos) { m->pos = m->len; return 0; } m->pos += n; return 1; }
static const LHAInputStreamType t_skip = { m_read, m_skip, NULL };
static const LHAInputStreamType t_noskip = { m_read, NULL, NULL };

int LLVMFuzzerTestOneInput(const uint8_t *data, size_t size)
{
	Mem m; LHAInputStream *s; LHAReader *r; LHAFileHeader *h; unsigned sel, n = 0; uint8_t buf[512];
	if (size < 1) return 0;
	sel = data[0];
	m.p = data + 1; m.len = size - 1; m.pos = 0;
	s = lha_input_stream_new((sel & 1) ? &t_skip : &t_noskip, &m);
	r = lha_reader_new(s);
	lha_reader_set_dir_policy(r, (LHAReaderDirPolicy) ((sel >> 1) % 3));
	while ((h = lha_reader_next_file(r)) != NULL && n < 64) {
		unsigned long guard = 0;
		switch ((sel >> 3) + n) {
		default:
		case 0: break;
		}
		switch (((sel >> 3) + n) & 3) {
		case 0: break;
		case 1: lha_reader_read(r, buf, 1 + (sel & 0x7f)); break;
		case 2: while (lha_reader_read(r, buf, sizeof buf) > 0 && ++guard < 20000) { } break;
		case 3: lha_reader_check(r, NULL, NULL); break;
		}
		++n;
	}
	lha_reader_free(r);
	lha_input_stream_free(s);
	return 0;
}
