/* Independent statement of the header integrity rules of C12 (one-directional: must_reject => the
 * library must not return a header).  Written from the property text and the LHA header layout, not
 * from lhasa's parser.  Only the listed rules are demanded; where they are silent, 0 is returned.
 *
 * ref_must_reject(B, n) looks at the header that starts at B[0] (input of n bytes in total) and returns
 * 0 or the number of the rule that condemns it:
 *  1 level > 3                         2 L0/L1 length below minimum        3 L0/L1 checksum mismatch
 *  4 name length overruns header       5 L2 length < 26                    6 L3 length < 32
 *  7 extended-header size too small    8 extended-header size exceeds what remains / what the packed size covers
 *  9 input ends before declared end   10 common-CRC mismatch              11 file without name    12 directory without path
 */
#include <stdint.h>
#include <string.h>
#include <stddef.h>
#include "ref_hdrrules.h"

static unsigned r16(const uint8_t *p) { return p[0] | (p[1] << 8); }
static unsigned long r32(const uint8_t *p) { return (unsigned long) p[0] | ((unsigned long) p[1] << 8) | ((unsigned long) p[2] << 16) | ((unsigned long) p[3] << 24); }

static unsigned crc_bitwise_zeroed(const uint8_t *p, size_t n, size_t z0)
{
	unsigned c = 0; size_t i; int k;
	for (i = 0; i < n; ++i) {
		uint8_t b = (i == z0 || i == z0 + 1) ? 0 : p[i];
		c ^= b;
		for (k = 0; k < 8; ++k) c = (c & 1) ? ((c >> 1) ^ 0xA001) : (c >> 1);
	}
	return c & 0xffff;
}

/* facts gathered while walking the extended headers */
typedef struct { int n_ccrc; size_t ccrc_off; unsigned ccrc_val; int has_name, has_path, has_perms, has_bar; unsigned perms; } Ext;

static void ext_seen(Ext *e, const uint8_t *B, size_t type_off, size_t data_len)
{
	uint8_t t = B[type_off];
	const uint8_t *d = B + type_off + 1;
	if (t == 0x00 && data_len >= 2) { ++e->n_ccrc; e->ccrc_off = type_off + 1; e->ccrc_val = r16(d); }
	else if (t == 0x01 && data_len >= 1) { e->has_name = 1; if (memchr(d, '|', data_len)) e->has_bar = 1; }
	else if (t == 0x02 && data_len >= 1) { e->has_path = 1; if (memchr(d, '|', data_len)) e->has_bar = 1; }
	else if (t == 0x50 && data_len >= 2) { e->has_perms = 1; e->perms = r16(d); }
	/* an OS-9 header (0xcc) is mapped to Unix permission bits only after the entry has been classified, so it has no say in
	 * whether a 0x50 header made this a symbolic link */
}

int ref_must_reject(const uint8_t *B, size_t n)
{
	unsigned level; Ext e; size_t hdr_end = 0; int is_dir; int inhdr_name = 0, inhdr_path = 0;
	const uint8_t *method;
	memset(&e, 0, sizeof e);
	if (n < 22) return 9;                 /* not even the common part is present */
	level = B[20];
	method = B + 2;
	if (level > 3) return 1;
	if (level <= 1) {
		size_t hl = B[0], min = level == 0 ? 22 : 25, namelen, i; unsigned sum = 0;
		if (hl < min) return 2;
		if (2 + hl > n) return 9;
		for (i = 2; i < 2 + hl; ++i) sum += B[i];
		if ((sum & 0xff) != B[1]) return 3;
		namelen = B[21];
		if (min + namelen > hl) return 4;
		for (i = 0; i < namelen; ++i) {
			uint8_t c = B[22 + i];
			if (c == 0) break;
			inhdr_name = 1;
			if (c == '|') e.has_bar = 1;
			if (c == '/' || c == '\\') inhdr_path = 1;
		}
		if (namelen > 0) inhdr_name = 1;   /* even an empty C string is a (non-NULL) name */
		hdr_end = 2 + hl;
		if (level == 0) {
			/* level-0 Unix area can carry permissions (symlink type) */
			size_t alen = hl - 22 - namelen; const uint8_t *a = B + 2 + 22 + namelen - 2 + 0;
			a = B + 24 + namelen;
			if (alen >= 12 && (a[0] == 'U' || a[0] == 'K') && a[1] == 0 && memcmp(method, "-pm", 3) != 0) {
				e.has_perms = 1; e.perms = r16(a + alen - 6);
			}
		} else {
			unsigned long packed = r32(B + 7);
			size_t off = hdr_end - 2;      /* position of the next-size field */
			for (;;) {
				unsigned sz = r16(B + off);
				if (sz == 0) break;
				if (off + 2 + sz > n) return 9;
				if (packed < sz) return 8;
				packed -= sz;
				if (sz < 3) return 7;
				ext_seen(&e, B, off + 2, sz - 3);
				off += sz;
				hdr_end = off + 2;
			}
		}
	} else if (level == 2) {
		size_t hl = r16(B), off, end;
		if (hl < 26) return 5;
		if (hl > n) return 9;
		end = hl;
		if (B[23] == 'K') { if (hl + 2 > n) return 9; end = hl + 2; }
		hdr_end = end;
		off = 24;
		while (off + 2 <= end) {
			unsigned sz = r16(B + off);
			if (sz == 0) break;
			if (sz < 3) return 7;
			if (sz > end - off - 2) return 8;
			ext_seen(&e, B, off + 2, sz - 3);
			off += sz;
		}
	} else {
		unsigned long hl; size_t off, end;
		if (n < 32) return 9;
		hl = r32(B + 24);
		if (hl < 32) return 6;
		if (hl > n) return 9;
		if (r16(B) != 4) return 0;         /* other word sizes: the rules are silent */
		if (hl > 1024 * 1024) return 0;    /* likewise for the 1 MiB ceiling */
		end = (size_t) hl; hdr_end = end;
		off = 28;
		while (off + 4 <= end) {
			unsigned long sz = r32(B + off);
			if (sz == 0) break;
			if (sz < 5) return 7;
			if (sz > end - off - 4) return 8;
			ext_seen(&e, B, off + 4, (size_t) sz - 5);
			off += (size_t) sz;
		}
	}
	if (e.n_ccrc == 1) {
		if (crc_bitwise_zeroed(B, hdr_end, e.ccrc_off) != e.ccrc_val) return 10;
	}
	is_dir = memcmp(method, "-lhd-", 5) == 0;
	if (!is_dir) {
		/* Amiga archivers store directories as nameless empty -lh0- entries: such an entry counts as a directory entry
		 * (and then needs a path like any other) */
		int amiga_quirk = level >= 1 && (level == 1 ? B[24 + B[21]] : B[23]) == 'A' && memcmp(method, "-lh0-", 5) == 0 && r32(B + 11) == 0;
		if (!inhdr_name && !e.has_name) {
			if (!amiga_quirk) return 11;
			is_dir = 1;
		}
	}
	if (is_dir) {
		/* a symbolic link is stored as 'name|target'; an entry with link mode bits but no '|' anywhere in its name or path cannot be
		 * one, so it is a plain directory entry and needs a path */
		int maybe_symlink = e.has_perms == 1 && (e.perms & 0170000) == 0120000 && e.has_bar;
		if (!maybe_symlink && !inhdr_path && !e.has_path) return 12;
	}
	return 0;
}

/* does the library's scanner recognise a header at B[0]?  (signature shapes from the property text of C16) */
int ref_signature_at(const uint8_t *B, size_t n)
{
	if (n < 7 || B[2] != '-' || B[6] != '-') return 0;
	if (B[3] == 'l' && B[4] == 'h') return 1;
	if (B[3] == 'l' && B[4] == 'z' && (B[5] == '4' || B[5] == '5' || B[5] == 's')) return 1;
	if (B[3] == 'p' && B[4] == 'm' && B[5] != 's') return 1;
	return 0;
}
