/* M-fs: LD_PRELOAD filesystem-operation monitor and guard (C10, C06; also a safety net for every CLI run on hostile input).
 *
 * Every path-taking libc entry the tool can reach is interposed.  For each call the target is resolved *at call time*
 * (parent directory through realpath; the final component followed or not according to the call's own semantics), one
 * line is appended to the log (VERIF_FS_LOG), and a *mutating* call that resolves outside VERIF_FS_ROOT is DENIED
 * (EPERM) after being logged - so a broken tree cannot damage the sandbox the checks run in.
 *
 * Log line:  seq call mutating denied ret errno flags resolved=<hex> arg=<hex> [arg2=<hex>]
 */
#define _GNU_SOURCE
#include <dlfcn.h>
#include <errno.h>
#include <fcntl.h>
#include <limits.h>
#include <stdarg.h>
#include <stdio.h>
#include <stdlib.h>
#include <string.h>
#include <unistd.h>
#include <utime.h>
#include <sys/stat.h>
#include <sys/syscall.h>
#include <sys/time.h>
#include <sys/types.h>

static int log_fd = -2;
static __thread int dn;      /* deny code of the call being handled */
static char root[PATH_MAX];
static size_t root_len;
static unsigned long seq;

static void init(void)
{
	const char *p, *r;
	if (log_fd != -2) return;
	p = getenv("VERIF_FS_LOG");
	r = getenv("VERIF_FS_ROOT");
	log_fd = p ? (int) syscall(SYS_openat, AT_FDCWD, p, O_WRONLY | O_APPEND | O_CREAT | O_CLOEXEC, 0666) : -1;
	if (r && realpath(r, root)) root_len = strlen(root); else { root[0] = 0; root_len = 0; }
}

static void hexs(char *o, size_t cap, const char *s)
{
	static const char hd[] = "0123456789abcdef";
	size_t n = 0;
	if (!s) { if (cap > 1) { o[0] = '-'; o[1] = 0; } return; }
	for (; *s && n + 3 < cap; ++s) { o[n++] = hd[(unsigned char) *s >> 4]; o[n++] = hd[(unsigned char) *s & 15]; }
	o[n] = 0;
}

/* resolve `path` relative to dirfd (AT_FDCWD only is used by the tool); follow = follow a symlink in the final component */
static void resolve(const char *path, int follow, char *out)
{
	char tmp[PATH_MAX], dir[PATH_MAX], base[NAME_MAX + 2], rp[PATH_MAX], link[PATH_MAX];
	int depth = 0;
	out[0] = 0;
	if (!path || !*path) { strcpy(out, "?empty"); return; }
	snprintf(tmp, sizeof tmp, "%s", path);
	for (;;) {
		size_t n = strlen(tmp); char *slash; struct stat st; ssize_t ln;
		while (n > 1 && tmp[n - 1] == '/') tmp[--n] = 0;       /* trailing slashes */
		slash = strrchr(tmp, '/');
		if (slash) {
			if (slash == tmp) strcpy(dir, "/"); else { size_t dl = (size_t) (slash - tmp); memcpy(dir, tmp, dl); dir[dl] = 0; }
			snprintf(base, sizeof base, "%s", slash + 1);
		} else { strcpy(dir, "."); snprintf(base, sizeof base, "%s", tmp); }
		if (!realpath(dir, rp)) { snprintf(out, PATH_MAX, "?noparent:%s", tmp); return; }
		if (!strcmp(base, ".") || !strcmp(base, "..") || !*base) {
			char full[PATH_MAX];
			snprintf(full, sizeof full, "%s/%s", rp, base);
			if (!realpath(full, out)) snprintf(out, PATH_MAX, "%s/%s", rp, base);
			return;
		}
		snprintf(out, PATH_MAX, "%s%s%s", rp, strcmp(rp, "/") ? "/" : "", base);
		if (!follow) return;
		if (lstat(out, &st) != 0 || !S_ISLNK(st.st_mode)) return;
		if (++depth > 40) { strcpy(out, "?loop"); return; }
		ln = readlink(out, link, sizeof link - 1);
		if (ln < 0) return;
		link[ln] = 0;
		if (link[0] == '/') snprintf(tmp, sizeof tmp, "%s", link);
		else snprintf(tmp, sizeof tmp, "%s/%s", rp, link);
	}
}

static int inside(const char *res)
{
	if (!root_len) return 1;
	if (res[0] == '?') return 0;
	return !strncmp(res, root, root_len) && (res[root_len] == '/' || res[root_len] == 0);
}

/* Would the kernel refuse this call whatever we do, leaving the target untouched?  (unlink of a directory, exclusive creation
 * of something that exists, creating a name that exists, writing a directory, removing a non-empty directory, an empty path.)
 * Such attempts on a target outside the root are denied like all others, but logged with denied=2 ("could have had no effect"). */
static int harmless_attempt(const char *call, const char *res, long flags)
{
	struct stat st; int exists;
	if (!strcmp(res, "?empty")) return 1;
	if (res[0] == '?') return 0;
	exists = lstat(res, &st) == 0;
	if (!strcmp(call, "unlink") || !strcmp(call, "unlinkat")) return exists && S_ISDIR(st.st_mode) && !(flags & AT_REMOVEDIR);
	if (!strncmp(call, "open", 4) || !strcmp(call, "creat"))
		return exists && (((flags & O_CREAT) && (flags & O_EXCL)) || S_ISDIR(st.st_mode));
	if (!strncmp(call, "fopen", 5) || !strcmp(call, "freopen")) return exists && S_ISDIR(st.st_mode);
	if (!strncmp(call, "mkdir", 5) || !strncmp(call, "symlink", 7) || !strcmp(call, "mkfifo") || !strcmp(call, "mknod")) return exists;
	return 0;
}

/* returns 0 = allow, 1 = deny, 2 = deny (an attempt that could not have had any effect) */
static int note(const char *call, int mutating, const char *arg, const char *arg2, int follow, long flags, char *resolved_out)
{
	char res[PATH_MAX];
	init();
	resolve(arg, follow, res);
	if (resolved_out) strcpy(resolved_out, res);
	if (!mutating || inside(res)) return 0;
	return harmless_attempt(call, res, flags) ? 2 : 1;
}

static void logline(const char *call, int mutating, int denied, long ret, int err, long flags, const char *res, const char *arg, const char *arg2)
{
	char line[3 * PATH_MAX + 256], h1[2 * PATH_MAX / 2], h2[PATH_MAX], h3[PATH_MAX];
	int n;
	if (log_fd < 0) return;
	hexs(h1, sizeof h1, res); hexs(h2, sizeof h2, arg); hexs(h3, sizeof h3, arg2);
	n = snprintf(line, sizeof line, "%lu %s %d %d %ld %d %ld resolved=%s arg=%s arg2=%s\n", ++seq, call, mutating, denied, ret, err, flags, h1, h2, h3);
	if (n > 0) { ssize_t w = write(log_fd, line, (size_t) n); (void) w; }
}

#define REAL(name) static __typeof__(name) *real; if (!real) real = (__typeof__(name) *) dlsym(RTLD_NEXT, #name)

static int open_mutating(int flags) { return (flags & O_ACCMODE) != O_RDONLY || (flags & (O_CREAT | O_TRUNC | O_APPEND)); }
static int open_follows(int flags) { return !((flags & O_NOFOLLOW) || ((flags & O_CREAT) && (flags & O_EXCL))); }

static int do_open(const char *name, int (*fn)(const char *, int, ...), const char *path, int flags, mode_t mode)
{
	char res[PATH_MAX]; int mut = open_mutating(flags), r, e;
	if ((dn = note(name, mut, path, NULL, open_follows(flags), flags, res)) != 0) { logline(name, mut, dn, -1, EPERM, flags, res, path, NULL); errno = EPERM; return -1; }
	r = fn(path, flags, mode); e = errno;
	logline(name, mut, 0, r, r < 0 ? e : 0, flags, res, path, NULL);
	errno = e;
	return r;
}

int open(const char *path, int flags, ...)
{
	mode_t mode = 0; REAL(open);
	if (flags & (O_CREAT | O_TMPFILE)) { va_list ap; va_start(ap, flags); mode = (mode_t) va_arg(ap, int); va_end(ap); }
	return do_open("open", real, path, flags, mode);
}
int open64(const char *path, int flags, ...)
{
	mode_t mode = 0; REAL(open64);
	if (flags & (O_CREAT | O_TMPFILE)) { va_list ap; va_start(ap, flags); mode = (mode_t) va_arg(ap, int); va_end(ap); }
	return do_open("open64", real, path, flags, mode);
}
int __open_2(const char *path, int flags) { REAL(open); return do_open("open", real, path, flags, 0); }
int __open64_2(const char *path, int flags) { REAL(open64); return do_open("open64", real, path, flags, 0); }

int openat(int dfd, const char *path, int flags, ...)
{
	mode_t mode = 0; char res[PATH_MAX]; int mut = open_mutating(flags), r, e; REAL(openat);
	if (flags & (O_CREAT | O_TMPFILE)) { va_list ap; va_start(ap, flags); mode = (mode_t) va_arg(ap, int); va_end(ap); }
	if (dfd != AT_FDCWD && path && path[0] != '/') { r = real(dfd, path, flags, mode); e = errno; logline("openat-fd", mut, 0, r, r < 0 ? e : 0, flags, "?dirfd", path, NULL); errno = e; return r; }
	if ((dn = note("openat", mut, path, NULL, open_follows(flags), flags, res)) != 0) { logline("openat", mut, dn, -1, EPERM, flags, res, path, NULL); errno = EPERM; return -1; }
	r = real(dfd, path, flags, mode); e = errno;
	logline("openat", mut, 0, r, r < 0 ? e : 0, flags, res, path, NULL); errno = e;
	return r;
}

int creat(const char *path, mode_t mode)
{
	char res[PATH_MAX]; int r, e; REAL(creat);
	if ((dn = note("creat", 1, path, NULL, 1, 0, res)) != 0) { logline("creat", 1, dn, -1, EPERM, 0, res, path, NULL); errno = EPERM; return -1; }
	r = real(path, mode); e = errno; logline("creat", 1, 0, r, r < 0 ? e : 0, 0, res, path, NULL); errno = e; return r;
}

static int fmode_mutating(const char *m) { return m && (strchr(m, 'w') || strchr(m, 'a') || strchr(m, '+')); }

FILE *fopen(const char *path, const char *mode)
{
	char res[PATH_MAX]; int mut = fmode_mutating(mode), e; FILE *f; REAL(fopen);
	if ((dn = note("fopen", mut, path, NULL, 1, 0, res)) != 0) { logline("fopen", mut, dn, -1, EPERM, 0, res, path, mode); errno = EPERM; return NULL; }
	f = real(path, mode); e = errno; logline("fopen", mut, 0, f ? 0 : -1, f ? 0 : e, 0, res, path, mode); errno = e; return f;
}
FILE *fopen64(const char *path, const char *mode)
{
	char res[PATH_MAX]; int mut = fmode_mutating(mode), e; FILE *f; REAL(fopen64);
	if ((dn = note("fopen64", mut, path, NULL, 1, 0, res)) != 0) { logline("fopen64", mut, dn, -1, EPERM, 0, res, path, mode); errno = EPERM; return NULL; }
	f = real(path, mode); e = errno; logline("fopen64", mut, 0, f ? 0 : -1, f ? 0 : e, 0, res, path, mode); errno = e; return f;
}
FILE *freopen(const char *path, const char *mode, FILE *s)
{
	char res[PATH_MAX]; int mut = fmode_mutating(mode), e; FILE *f; REAL(freopen);
	if (path && note("freopen", mut, path, NULL, 1, 0, res)) { logline("freopen", mut, 1, -1, EPERM, 0, res, path, mode); errno = EPERM; return NULL; }
	f = real(path, mode, s); e = errno; if (path) logline("freopen", mut, 0, f ? 0 : -1, f ? 0 : e, 0, res, path, mode); errno = e; return f;
}

#define SIMPLE1(name, follow, proto, callargs, patharg)                                                      \
	int name proto                                                                                           \
	{                                                                                                        \
		char res[PATH_MAX]; int r, e; REAL(name);                                                            \
		if ((dn = note(#name, 1, patharg, NULL, follow, 0, res)) != 0) { logline(#name, 1, dn, -1, EPERM, 0, res, patharg, NULL); errno = EPERM; return -1; } \
		r = real callargs; e = errno; logline(#name, 1, 0, r, r < 0 ? e : 0, 0, res, patharg, NULL); errno = e; return r; \
	}

SIMPLE1(mkdir, 0, (const char *path, mode_t mode), (path, mode), path)
SIMPLE1(rmdir, 0, (const char *path), (path), path)
SIMPLE1(unlink, 0, (const char *path), (path), path)
SIMPLE1(remove, 0, (const char *path), (path), path)
SIMPLE1(chmod, 1, (const char *path, mode_t mode), (path, mode), path)
SIMPLE1(chown, 1, (const char *path, uid_t u, gid_t g), (path, u, g), path)
SIMPLE1(lchown, 0, (const char *path, uid_t u, gid_t g), (path, u, g), path)
SIMPLE1(utime, 1, (const char *path, const struct utimbuf *t), (path, t), path)
SIMPLE1(utimes, 1, (const char *path, const struct timeval t[2]), (path, t), path)
SIMPLE1(truncate, 1, (const char *path, off_t len), (path, len), path)
SIMPLE1(mkfifo, 0, (const char *path, mode_t mode), (path, mode), path)
SIMPLE1(mknod, 0, (const char *path, mode_t mode, dev_t dev), (path, mode, dev), path)

int symlink(const char *target, const char *linkpath)
{
	char res[PATH_MAX]; int r, e; REAL(symlink);
	if ((dn = note("symlink", 1, linkpath, target, 0, 0, res)) != 0) { logline("symlink", 1, dn, -1, EPERM, 0, res, linkpath, target); errno = EPERM; return -1; }
	r = real(target, linkpath); e = errno; logline("symlink", 1, 0, r, r < 0 ? e : 0, 0, res, linkpath, target); errno = e; return r;
}

static int two_paths(const char *name, int (*fn)(const char *, const char *), const char *a, const char *b)
{
	char ra[PATH_MAX], rb[PATH_MAX]; int da, db, r, e;
	da = note(name, 1, a, NULL, 0, 0, ra); db = note(name, 1, b, NULL, 0, 0, rb);
	if (da || db) { logline(name, 1, 1, -1, EPERM, 0, da ? ra : rb, a, b); errno = EPERM; return -1; }
	r = fn(a, b); e = errno; logline(name, 1, 0, r, r < 0 ? e : 0, 0, rb, a, b); errno = e; return r;
}
int rename(const char *a, const char *b) { REAL(rename); return two_paths("rename", real, a, b); }
int link(const char *a, const char *b) { REAL(link); return two_paths("link", real, a, b); }

/* *at variants: the tool never uses directory descriptors; with AT_FDCWD they are treated like their plain forms,
 * with a real descriptor they are logged as unresolved and (if mutating) denied. */
#define AT1(name, follow_expr, proto, callargs, dfd, patharg)                                                \
	int name proto                                                                                           \
	{                                                                                                        \
		char res[PATH_MAX]; int r, e; REAL(name);                                                            \
		if (dfd != AT_FDCWD && patharg && patharg[0] != '/') { init(); logline(#name "-fd", 1, root_len != 0, -1, EPERM, 0, "?dirfd", patharg, NULL); if (root_len) { errno = EPERM; return -1; } return real callargs; } \
		if ((dn = note(#name, 1, patharg, NULL, follow_expr, 0, res)) != 0) { logline(#name, 1, dn, -1, EPERM, 0, res, patharg, NULL); errno = EPERM; return -1; } \
		r = real callargs; e = errno; logline(#name, 1, 0, r, r < 0 ? e : 0, 0, res, patharg, NULL); errno = e; return r; \
	}
AT1(mkdirat, 0, (int dfd, const char *path, mode_t mode), (dfd, path, mode), dfd, path)
AT1(unlinkat, 0, (int dfd, const char *path, int fl), (dfd, path, fl), dfd, path)
AT1(fchmodat, !(fl & AT_SYMLINK_NOFOLLOW), (int dfd, const char *path, mode_t mode, int fl), (dfd, path, mode, fl), dfd, path)
AT1(fchownat, !(fl & AT_SYMLINK_NOFOLLOW), (int dfd, const char *path, uid_t u, gid_t g, int fl), (dfd, path, u, g, fl), dfd, path)
AT1(utimensat, !(fl & AT_SYMLINK_NOFOLLOW), (int dfd, const char *path, const struct timespec t[2], int fl), (dfd, path, t, fl), dfd, path)
AT1(futimesat, 1, (int dfd, const char *path, const struct timeval t[2]), (dfd, path, t), dfd, path)
AT1(symlinkat, 0, (const char *target, int dfd, const char *path), (target, dfd, path), dfd, path)

int renameat(int od, const char *a, int nd, const char *b)
{
	REAL(renameat);
	if (od == AT_FDCWD && nd == AT_FDCWD) { REAL(rename); (void) real; }
	{
		char ra[PATH_MAX], rb[PATH_MAX]; int da, db, r, e;
		if ((od != AT_FDCWD && a[0] != '/') || (nd != AT_FDCWD && b[0] != '/')) { init(); logline("renameat-fd", 1, root_len != 0, -1, EPERM, 0, "?dirfd", a, b); if (root_len) { errno = EPERM; return -1; } return real(od, a, nd, b); }
		da = note("renameat", 1, a, NULL, 0, 0, ra); db = note("renameat", 1, b, NULL, 0, 0, rb);
		if (da || db) { logline("renameat", 1, 1, -1, EPERM, 0, da ? ra : rb, a, b); errno = EPERM; return -1; }
		r = real(od, a, nd, b); e = errno; logline("renameat", 1, 0, r, r < 0 ? e : 0, 0, rb, a, b); errno = e; return r;
	}
}
int linkat(int od, const char *a, int nd, const char *b, int fl)
{
	char ra[PATH_MAX], rb[PATH_MAX]; int da, db, r, e; REAL(linkat);
	if ((od != AT_FDCWD && a[0] != '/') || (nd != AT_FDCWD && b[0] != '/')) { init(); logline("linkat-fd", 1, root_len != 0, -1, EPERM, 0, "?dirfd", a, b); if (root_len) { errno = EPERM; return -1; } return real(od, a, nd, b, fl); }
	da = note("linkat", 1, a, NULL, 0, 0, ra); db = note("linkat", 1, b, NULL, 0, 0, rb);
	if (da || db) { logline("linkat", 1, 1, -1, EPERM, 0, da ? ra : rb, a, b); errno = EPERM; return -1; }
	r = real(od, a, nd, b, fl); e = errno; logline("linkat", 1, 0, r, r < 0 ? e : 0, 0, rb, a, b); errno = e; return r;
}
