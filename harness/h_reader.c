/* Reader-API op-script interpreter (C05 C07 C08 C11-C13 C15 C16 C20).
 *   h_reader CASES OUT MARKER WORKDIR
 * CASES: records  u32 magic "RDRC"(0x43524452), u32 id, u32 kind, u32 policy, u32 flags, u64 step_budget,
 *                 u32 fail_at, u32 nops, (u32 op, u32 arg)[nops], u32 alen, u8 archive[alen]
 *   kind:   0 FILE on a seekable file   1 FILE on a pipe(2) fed by a writer thread
 *           2 callbacks with skip       3 callbacks without skip
 *           4 lha_input_stream_from(path): the library opens and owns the FILE itself
 *   policy: 0 PLAIN 1 END_OF_DIR 2 END_OF_FILE 3 leave default
 *   flags:  1 = print full data of reads (else only length+crc when > 512 bytes)
 *           2 = extraction allowed with header paths (filename NULL); otherwise EXTRACT always uses a harness-chosen name
 *           4 = short reads: callback kinds deliver at most 7 bytes per call
 *   ops: 0 NEXT  1 READ(arg bytes)  2 READALL  3 CHECK(with progress cb)  4 EXTRACT(NULL name if allowed)
 *        5 EXTRACT(explicit name out_<opidx>)  6 STOP (abandon: go straight to free)  7 CHECK(no callback)
 *        8 NEXT repeated until NULL (arg = operation applied to each: 0 none, 1 read one byte, 2 readall, 3 check, 4 extract)
 * OUT: text, one event per line (see emit_* below); every case ends with an END line carrying allocator and handle balance.
 * Each case runs in WORKDIR/<id>/ (created here) so extraction with header paths stays inside it.
 */
#define _GNU_SOURCE
#include <stdio.h>
#include <stdlib.h>
#include <string.h>
#include <stdint.h>
#include <unistd.h>
#include <fcntl.h>
#include <errno.h>
#include <setjmp.h>
#include <pthread.h>
#include <signal.h>
#include <dirent.h>
#include <sys/stat.h>
#include "lha_reader.h"
#include <sys/time.h>
#include <signal.h>
#include "verif_hooks.h"

/* per-case CPU-time watchdog: a case that burns more than VERIF_CASE_CPU_S seconds of CPU is reported as a hang
 * (exit 3 + "WATCHDOG" on stderr); the driver attributes it to the marked case and restarts after it. */
static void case_watchdog(int sig) { static const char m[] = "\nWATCHDOG case exceeded its CPU budget\n"; (void) sig; if (write(2, m, sizeof m - 1) < 0) { } _exit(3); }
static void arm_watchdog(void)
{
	struct itimerval it; const char *e = getenv("VERIF_CASE_CPU_S"); long s = e ? atol(e) : 30;
	memset(&it, 0, sizeof it); it.it_value.tv_sec = s > 0 ? s : 30;
	signal(SIGPROF, case_watchdog);
	setitimer(ITIMER_PROF, &it, NULL);
}

#include "allocmon.h"

#define ENTER() (allocmon_active = 1)
#define LEAVE() (allocmon_active = 0)

static FILE *out;
static jmp_buf budget_jmp;
static int budget_armed;

typedef struct {
	const uint8_t *p; size_t len, pos;
	unsigned long reads, skips, bytes; uint64_t budget; int shortreads;
	size_t err_at;          /* 0 = never; otherwise the read callback reports an error (-1) once the position has reached err_at-1 */
	unsigned long errors;
} MemSrc;

static void charge(MemSrc *s)
{
	if (s->budget && s->reads + s->skips > s->budget && budget_armed) {
		budget_armed = 0;
		longjmp(budget_jmp, 1);
	}
}

/* FILE-backed kinds: stdio calls made by library code are charged to the same budget */
static MemSrc *cur_src;
static void file_step(void)
{
	if (cur_src) { cur_src->reads = allocmon_file_reads; cur_src->skips = allocmon_file_seeks; charge(cur_src); }
}

static int cb_read(void *h, void *buf, size_t n)
{
	MemSrc *s = h; size_t k = s->len - s->pos;
	++s->reads; charge(s);
	if (s->err_at && s->pos + 1 >= s->err_at) { ++s->errors; return -1; }
	if (s->err_at && s->pos + n >= s->err_at) n = s->err_at - 1 - s->pos;     /* deliver up to the faulty spot, then fail */
	if (k > n) k = n;
	if (s->shortreads && k > 7) k = 7;
	memcpy(buf, s->p + s->pos, k); s->pos += k; s->bytes += k;
	return (int) k;
}

static int cb_skip(void *h, size_t n)
{
	MemSrc *s = h;
	++s->skips; charge(s);
	if (n > s->len - s->pos) { s->pos = s->len; return 0; }
	s->pos += n;
	return 1;
}

static const LHAInputStreamType type_skip = { cb_read, cb_skip, NULL };
static const LHAInputStreamType type_noskip = { cb_read, NULL, NULL };

/* pipe feeder */
typedef struct { int fd; const uint8_t *p; size_t len; } Feed;
static void *feeder(void *a)
{
	Feed *f = a; size_t pos = 0;
	while (pos < f->len) {
		size_t chunk = f->len - pos; ssize_t w;
		if (chunk > 4093) chunk = 4093;
		w = write(f->fd, f->p + pos, chunk);
		if (w <= 0) break;
		pos += (size_t) w;
	}
	close(f->fd);
	return NULL;
}

static int count_fds(void)
{
	DIR *d = opendir("/proc/self/fd"); struct dirent *e; int n = 0;
	if (!d) return -1;
	while ((e = readdir(d)) != NULL) if (e->d_name[0] != '.') ++n;
	closedir(d);
	return n - 1;          /* minus the DIR's own fd */
}

static uint16_t crc_own(uint16_t c, const uint8_t *p, size_t n)
{
	size_t i; int k;
	for (i = 0; i < n; ++i) { c ^= p[i]; for (k = 0; k < 8; ++k) c = (c & 1) ? (uint16_t) ((c >> 1) ^ 0xA001) : (uint16_t) (c >> 1); }
	return c;
}

static void hexs(const char *k, const char *s)
{
	fprintf(out, " %s=", k);
	if (!s) { fprintf(out, "-"); return; }
	fprintf(out, "x");
	for (; *s; ++s) fprintf(out, "%02x", (unsigned char) *s);
}

static void emit_header(LHAReader *r, LHAFileHeader *h)
{
	int fake;
	if (!h) { fprintf(out, "NEXT NULL\n"); return; }
	ENTER(); fake = lha_reader_current_is_fake(r); LEAVE();
	fprintf(out, "NEXT fake=%d level=%d", fake, h->header_level);
	hexs("path", h->path); hexs("filename", h->filename); hexs("symlink", h->symlink_target); hexs("method", h->compress_method);
	fprintf(out, " packed=%zu size=%zu os=%u crc=%u time=%u flags=%u", h->compressed_length, h->length, h->os_type, h->crc,
	        h->timestamp, h->extra_flags);
	fprintf(out, " perms=%u uid=%u gid=%u os9=%u", (h->extra_flags & LHA_FILE_UNIX_PERMS) ? h->unix_perms : 0,
	        (h->extra_flags & LHA_FILE_UNIX_UID_GID) ? h->unix_uid : 0, (h->extra_flags & LHA_FILE_UNIX_UID_GID) ? h->unix_gid : 0,
	        (h->extra_flags & LHA_FILE_OS9_PERMS) ? h->os9_perms : 0);
	hexs("user", h->unix_username); hexs("group", h->unix_group);
	fprintf(out, " ccrc=%u", (h->extra_flags & LHA_FILE_COMMON_CRC) ? h->common_crc : 0);
	if (h->extra_flags & LHA_FILE_WINDOWS_TIMESTAMPS)
		fprintf(out, " win=%llu,%llu,%llu", (unsigned long long) h->win_creation_time, (unsigned long long) h->win_modification_time,
		        (unsigned long long) h->win_access_time);
	else fprintf(out, " win=-");
	fprintf(out, " rawlen=%zu\n", h->raw_data_len);
}

#define MAXCB 64
static unsigned cbn, cbfirst[2], cblast[2], cbbad;
/* Output cap: a check/extract of a member that declares an enormous length (and really decodes that far: -pm1- is
 * implicitly endless) is bounded work, but too much of it for a test case.  Once the progress callback shows that
 * more than outcap bytes have been produced the case is abandoned ("OUTCAP"): so far the work was proportional to the
 * output, which is all the step budget asks; nothing else is concluded from such a case. */
static uint64_t outcap = 64u << 20;
/* the paths without a progress callback are exercised on every member of ordinary size; one that declares more than the
 * cap gets the callback after all, because the callback is the only place from which the case can be abandoned */
#define BIGMEMBER(h) ((h) != NULL && (uint64_t) (h)->length > outcap)
static LHAFileHeader *cap_hdr;
static double outcap_done;
static void progress_cb(unsigned int num, unsigned int tot, void *u)
{
	(void) u;
	if (cbn == 0) { cbfirst[0] = num; cbfirst[1] = tot; }
	else if (num != cblast[0] + 1 || tot != cblast[1]) ++cbbad;
	cblast[0] = num; cblast[1] = tot; ++cbn;
	if (budget_armed && cap_hdr != NULL && tot > 0 && num <= tot) {
		outcap_done = (double) cap_hdr->length * num / tot;
		if (outcap_done > (double) outcap) { budget_armed = 0; longjmp(budget_jmp, 2); }
	}
}

static uint8_t *filedata; static size_t filelen, filepos;
static int rd(void *dst, size_t n) { if (filepos + n > filelen) return 0; memcpy(dst, filedata + filepos, n); filepos += n; return 1; }

static void emit_data(const char *tag, const uint8_t *p, size_t n, int full)
{
	size_t i;
	fprintf(out, "%s n=%zu crc=%u data=", tag, n, crc_own(0, p, n));
	if (full || n <= 512) for (i = 0; i < n; ++i) fprintf(out, "%02x", p[i]); else fprintf(out, "-");
	fprintf(out, "\n");
}

static size_t do_readall(LHAReader *r, uint8_t **bufp, size_t cap)
{
	size_t tot = 0, n, sz = 4096; uint8_t *b = malloc(sz);
	for (;;) {
		if (tot + 4096 > sz) { sz *= 2; b = realloc(b, sz); }
		ENTER(); n = lha_reader_read(r, b + tot, 4096); LEAVE();
		if (n == 0) break;
		tot += n;
		if (tot >= cap) break;
	}
	*bufp = b;
	return tot;
}

/* Uninitialised-memory differential: with VERIF_STACK_FILL=<0..255> the stack region the library calls are about to use is filled
 * with that byte before every case (and ASan's malloc_fill_byte does the same for fresh heap blocks).  A case whose output differs
 * between two fill values let an uninitialised byte decide it. */
static void __attribute__((noinline)) scribble_stack(void)
{
	static int fill = -2;
	if (fill == -2) { const char *e = getenv("VERIF_STACK_FILL"); fill = e ? atoi(e) : -1; }
	if (fill >= 0) { volatile unsigned char pad[96 * 1024]; size_t i; for (i = 0; i < sizeof pad; ++i) pad[i] = (unsigned char) fill; }
}

int main(int argc, char **argv)
{
	FILE *in; int mfd; unsigned long ncases = 0; const char *workdir;
	if (argc < 5) return 2;
	signal(SIGPIPE, SIG_IGN);
	in = fopen(argv[1], "rb"); if (!in) return 2;
	fseek(in, 0, SEEK_END); filelen = ftell(in); fseek(in, 0, SEEK_SET);
	filedata = malloc(filelen + 1); if (fread(filedata, 1, filelen, in) != filelen) return 2; fclose(in);
	out = fopen(argv[2], "wb"); if (!out) return 2;
	mfd = open(argv[3], O_WRONLY | O_CREAT, 0644); if (mfd < 0) return 2;
	workdir = argv[4];
	if (getenv("VERIF_OUTCAP_MB")) outcap = (uint64_t) atol(getenv("VERIF_OUTCAP_MB")) << 20;

	for (;;) {
		uint32_t magic, id, kind, policy, flags, fail_at, nops, alen, i, (*ops)[2];
		uint64_t budget; uint8_t *arc; MemSrc src; char dir[512], arcpath[600];
		LHAInputStream *stream = NULL; LHAReader *reader = NULL; FILE *fp = NULL; int pfd[2] = {-1, -1};
		pthread_t th; int have_thread = 0; Feed feed; int fds_before, fds_after; volatile int aborted = 0;
		LHAFileHeader *cur = NULL;

		if (!rd(&magic, 4)) break;
		if (magic != 0x43524452) { fprintf(stderr, "bad magic\n"); return 2; }
		rd(&id, 4); rd(&kind, 4); rd(&policy, 4); rd(&flags, 4); rd(&budget, 8); rd(&fail_at, 4); rd(&nops, 4);
		ops = malloc(8 * (nops + 1));
		for (i = 0; i < nops; ++i) { rd(&ops[i][0], 4); rd(&ops[i][1], 4); }
		rd(&alen, 4);
		if (filepos + alen > filelen) { fprintf(stderr, "short case\n"); return 2; }
		arc = malloc(alen ? alen : 1); memcpy(arc, filedata + filepos, alen); filepos += alen;
		{ char mb[16]; int n = snprintf(mb, sizeof mb, "%u\n", id); if (pwrite(mfd, mb, n, 0) < 0) return 2; }
		snprintf(dir, sizeof dir, "%s/%u", workdir, id);
		mkdir(dir, 0755);
		if (chdir(dir) != 0) { fprintf(stderr, "chdir %s failed\n", dir); return 2; }
		fprintf(out, "CASE %u\n", id);
		fflush(out);
		arm_watchdog();
		scribble_stack();
		allocmon_reset();
		fds_before = count_fds();
		memset(&src, 0, sizeof src);
		src.p = arc; src.len = alen; src.budget = budget; src.shortreads = (flags & 4) != 0;
		src.err_at = flags >> 8;          /* bits 8..31 of the flags word: offset+1 at which the read callback starts failing */
		flags &= 0xff;

		if (kind == 0 || kind == 4) {
			snprintf(arcpath, sizeof arcpath, "%s/arc_%u.bin", workdir, id);
			fp = fopen(arcpath, "wb"); if (!fp) return 2;
			if (alen && fwrite(arc, 1, alen, fp) != alen) return 2;
			fclose(fp); fp = NULL;
			if (kind == 0) { fp = fopen(arcpath, "rb"); if (!fp) return 2; }
			fds_before = count_fds();
		} else if (kind == 1) {
			if (pipe(pfd) != 0) return 2;
			feed.fd = pfd[1]; feed.p = arc; feed.len = alen;
			fp = fdopen(pfd[0], "rb"); if (!fp) return 2;
			pthread_create(&th, NULL, feeder, &feed); have_thread = 1;
			fds_before = -1;     /* the feeder closes its end asynchronously: fd balance is not meaningful here */
		}

		allocmon_fail_at = fail_at;
		allocmon_file_reads = allocmon_file_seeks = 0;
		cur_src = (kind <= 1 || kind == 4) ? &src : NULL;
		allocmon_step_hook = file_step;
		budget_armed = 1;
		{
			int why = setjmp(budget_jmp);
			if (why != 0) {
				LEAVE();
				if (why == 2) fprintf(out, "OUTCAP produced=%.0f callbacks=%u\n", outcap_done, cbn);
				else fprintf(out, "BUDGET reads=%lu skips=%lu bytes=%lu budget=%llu\n", src.reads, src.skips, src.bytes, (unsigned long long) budget);
				aborted = 1;
				goto finish;
			}
		}

		ENTER();
		if (kind <= 1) stream = lha_input_stream_from_FILE(fp);
		else if (kind == 4) stream = lha_input_stream_from(arcpath);
		else stream = lha_input_stream_new(kind == 2 ? &type_skip : &type_noskip, &src);
		LEAVE();
		if (!stream) { fprintf(out, "STREAM NULL\n"); goto finish; }
		ENTER(); reader = lha_reader_new(stream); LEAVE();
		if (!reader) { fprintf(out, "READER NULL\n"); goto finish; }
		if (policy < 3) { ENTER(); lha_reader_set_dir_policy(reader, (LHAReaderDirPolicy) policy); LEAVE(); }

		for (i = 0; i < nops; ++i) {
			uint32_t op = ops[i][0], arg = ops[i][1]; unsigned long r0 = src.reads, s0 = src.skips;
			long a0 = allocmon_nalloc, f0 = allocmon_failed_count;
			if (op == 6) { fprintf(out, "STOP\n"); break; }
			switch (op) {
			case 0:
				ENTER(); cur = lha_reader_next_file(reader); LEAVE();
				emit_header(reader, cur);
				break;
			case 1: {
				uint8_t *b = malloc(arg ? arg : 1); size_t n;
				ENTER(); n = lha_reader_read(reader, b, arg); LEAVE();
				if (n > arg) fprintf(out, "APIVIOLATION read returned %zu > asked %u\n", n, arg);
				else emit_data("READ", b, n, flags & 1);
				free(b);
				break; }
			case 2: {
				uint8_t *b; size_t n = do_readall(reader, &b, 64u << 20);
				emit_data("READALL", b, n, flags & 1);
				free(b);
				break; }
			case 3: case 7: {
				int res;
				cbn = 0; cbbad = 0; cap_hdr = cur;
				ENTER(); res = lha_reader_check(reader, (op == 3 || BIGMEMBER(cur)) ? progress_cb : NULL, NULL); LEAVE();
				fprintf(out, "CHECK result=%d ncb=%u first=%u/%u last=%u/%u bad=%u\n", res, cbn, cbfirst[0], cbfirst[1], cblast[0], cblast[1], cbbad);
				break; }
			case 4: case 5: {
				int res; char name[64]; char *fn = NULL;
				if (op == 5 || !(flags & 2)) { snprintf(name, sizeof name, "out_%u", i); fn = name; }
				cbn = 0; cbbad = 0; cap_hdr = cur;
				ENTER(); res = lha_reader_extract(reader, fn, progress_cb, NULL); LEAVE();
				fprintf(out, "EXTRACT result=%d named=%d ncb=%u", res, fn != NULL, cbn);
				if (fn != NULL) {
					/* what the extraction produced: length and CRC-16 of the named output if it is a regular file */
					struct stat sb; long flen = -1; unsigned fcrc = 0;
					if (lstat(fn, &sb) == 0 && S_ISREG(sb.st_mode)) {
						FILE *f = fopen(fn, "rb"); uint8_t fb[4096]; size_t k; uint16_t c = 0;
						flen = 0;
						if (f) { while ((k = fread(fb, 1, sizeof fb, f)) > 0) { c = crc_own(c, fb, k); flen += (long) k; } fclose(f); }
						fcrc = c;
					}
					fprintf(out, " flen=%ld fcrc=%u", flen, fcrc);
				}
				fprintf(out, "\n");
				break; }
			case 8: {
				unsigned long guard = 0;
				for (;;) {
					ENTER(); cur = lha_reader_next_file(reader); LEAVE();
					emit_header(reader, cur);
					if (!cur || ++guard > 100000) break;
					if (arg == 1) { uint8_t one[1]; size_t n; ENTER(); n = lha_reader_read(reader, one, 1); LEAVE(); emit_data("READ", one, n, 1); }
					else if (arg == 2) { uint8_t *b; size_t n = do_readall(reader, &b, 64u << 20); emit_data("READALL", b, n, flags & 1); free(b); }
					else if (arg == 3) { int res; cbn = 0; cbbad = 0; cap_hdr = cur; ENTER(); res = lha_reader_check(reader, progress_cb, NULL); LEAVE();
						fprintf(out, "CHECK result=%d ncb=%u first=%u/%u last=%u/%u bad=%u\n", res, cbn, cbfirst[0], cbfirst[1], cblast[0], cblast[1], cbbad); }
					else if (arg == 4) { int res; char name[64]; char *fn = NULL;
						if (!(flags & 2)) { snprintf(name, sizeof name, "out_%lu", guard); fn = name; }
						cap_hdr = cur;
						ENTER(); res = lha_reader_extract(reader, fn, BIGMEMBER(cur) ? progress_cb : NULL, NULL); LEAVE();
						fprintf(out, "EXTRACT result=%d named=%d ncb=0\n", res, fn != NULL); }
				}
				break; }
			default:
				fprintf(stderr, "bad op\n"); return 2;
			}
			fprintf(out, "STEPS reads=%lu skips=%lu allocs=%ld failed=%ld\n", src.reads - r0, src.skips - s0, allocmon_nalloc - a0,
			        allocmon_failed_count - f0);
		}
finish:
		budget_armed = 0;
		if (!aborted) {
			if (reader) { ENTER(); lha_reader_free(reader); LEAVE(); }
			if (stream) { ENTER(); lha_input_stream_free(stream); LEAVE(); }
		}
		fprintf(out, "ALLOC live_blocks=%ld live_bytes=%zu peak=%zu nalloc=%ld failed=%ld untracked_frees=%ld aborted=%d\n",
		        allocmon_live_blocks, allocmon_live_bytes, allocmon_peak_bytes, allocmon_nalloc, allocmon_failed_count,
		        allocmon_untracked_frees, (int) aborted);
		fds_after = count_fds();
		if (fp) fclose(fp);
		if (have_thread) pthread_join(th, NULL);
		if (kind == 0 || kind == 4) unlink(arcpath);
		fprintf(out, "END fds_before=%d fds_after=%d pos=%zu reads=%lu skips=%lu bytes=%lu\n", fds_before, fds_after, src.pos, src.reads,
		        src.skips, src.bytes);
		fflush(out);
		free(arc); free(ops);
		if (chdir(workdir) != 0) return 2;
		++ncases;
	}
	fclose(out);
	lhasa_verif_stats(stdout);
	printf("DONE cases=%lu\n", ncases);
	return 0;
}
