#ifndef LHASA_VERIF_HOOKS_H
#define LHASA_VERIF_HOOKS_H
#include <stdio.h>
void lhasa_verif_tree(const void *tree, unsigned long tree_len, unsigned long elem_size, const char *where);
void lhasa_verif_index(const char *table, long idx, unsigned long table_len);
void lhasa_verif_row(const void *ptr, const void *row_base, unsigned long row_len, const char *where);
void lhasa_verif_stats(FILE *f);
extern unsigned long lhasa_verif_n_tree, lhasa_verif_n_index, lhasa_verif_n_row;
#endif
