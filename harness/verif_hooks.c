/* Receivers for the guarded hooks in /repo (guard LHASA_VERIF).  A failed invariant prints
 * one line "VERIF-HOOK-VIOLATION kind=... " to stderr and aborts, so that it is attributed to
 * the running case exactly like a sanitizer report. */
#include <stdio.h>
#include <stdlib.h>
#include <string.h>
#include <stdint.h>
#include "verif_hooks.h"

unsigned long lhasa_verif_n_tree, lhasa_verif_n_index, lhasa_verif_n_row;
unsigned long lhasa_verif_max_index[8];
static const char *index_names[8];

static void die(const char *msg)
{
	fflush(stdout);
	fprintf(stderr, "VERIF-HOOK-VIOLATION %s\n", msg);
	fflush(stderr);
	abort();
}

/* H1: structural invariant of a code tree that makes traversal safe for any bit string:
 * every internal entry points forward (acyclic, terminating) to a pair inside the array. */
void lhasa_verif_tree(const void *tree, unsigned long tree_len, unsigned long elem_size, const char *where)
{
	unsigned long i;
	char buf[200];
	__atomic_fetch_add(&lhasa_verif_n_tree, 1, __ATOMIC_RELAXED);
	for (i = 0; i < tree_len; ++i) {
		unsigned long v, leaf;
		if (elem_size == 1) { v = ((const uint8_t *) tree)[i]; leaf = 0x80; }
		else if (elem_size == 2) { v = ((const uint16_t *) tree)[i]; leaf = 0x8000; }
		else { die("kind=tree bad-elem-size"); return; }
		if (v & leaf) continue;
		if (v + 1 >= tree_len || v <= i) {
			/* entry 0 == 0 can only be produced by an untouched calloc'd tree; report it too */
			snprintf(buf, sizeof buf, "kind=tree where=%s index=%lu value=%lu tree_len=%lu",
			         where, i, v, tree_len);
			die(buf);
		}
	}
}

/* H2: table index used by the PMarc variable-length decoders. */
void lhasa_verif_index(const char *table, long idx, unsigned long table_len)
{
	int k;
	char buf[200];
	__atomic_fetch_add(&lhasa_verif_n_index, 1, __ATOMIC_RELAXED);
	for (k = 0; k < 8; ++k) {
		/* thread-safe registration of the table name (the monitor must not become the race) */
		const char *cur = __atomic_load_n(&index_names[k], __ATOMIC_ACQUIRE);
		if (cur == NULL) {
			const char *expected = NULL;
			if (__atomic_compare_exchange_n(&index_names[k], &expected, table, 0, __ATOMIC_ACQ_REL, __ATOMIC_ACQUIRE)) cur = table;
			else cur = expected;
		}
		if (cur == table || !strcmp(cur, table)) {
			unsigned long old = __atomic_load_n(&lhasa_verif_max_index[k], __ATOMIC_RELAXED);
			while (idx >= 0 && (unsigned long) idx > old
			    && !__atomic_compare_exchange_n(&lhasa_verif_max_index[k], &old, (unsigned long) idx, 0, __ATOMIC_RELAXED, __ATOMIC_RELAXED)) { }
			break;
		}
	}
	if (idx < 0 || (unsigned long) idx >= table_len) {
		snprintf(buf, sizeof buf, "kind=index table=%s index=%ld table_len=%lu", table, idx, table_len);
		die(buf);
	}
}

/* H3: a pointer walking inside one row of a 2-D table. */
void lhasa_verif_row(const void *ptr, const void *row_base, unsigned long row_len, const char *where)
{
	char buf[200];
	__atomic_fetch_add(&lhasa_verif_n_row, 1, __ATOMIC_RELAXED);
	if ((const char *) ptr < (const char *) row_base
	 || (const char *) ptr >= (const char *) row_base + row_len) {
		snprintf(buf, sizeof buf, "kind=row where=%s offset=%ld row_len=%lu", where,
		         (long) ((const char *) ptr - (const char *) row_base), row_len);
		die(buf);
	}
}

void lhasa_verif_stats(FILE *f)
{
	int k;
	fprintf(f, "HOOKSTATS trees=%lu indexes=%lu rows=%lu", lhasa_verif_n_tree, lhasa_verif_n_index, lhasa_verif_n_row);
	for (k = 0; k < 8 && index_names[k]; ++k) fprintf(f, " max[%s]=%lu", index_names[k], lhasa_verif_max_index[k]);
	fprintf(f, "\n");
}
