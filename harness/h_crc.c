/* C17 driver: lha_crc16_buf against the bitwise definition of CRC-16/ARC.
 *   h_crc pairs  LO HI          all states c in [LO,HI) x all 256 bytes
 *   h_crc pairs2 LO HI          all states c in [LO,HI) x all 65536 two-byte inputs, whole and split 1+1
 *   h_crc random SEED N         N random buffers, misaligned, whole vs 2-splits / k-splits vs reference
 *   h_crc long SEED MAXLOG2     long buffers: lengths 2^k-1, 2^k, 2^k+1 (k = 8..MAXLOG2), multiples of 65536, random lengths
 *                               up to 2^21; whole vs reference, vs a 2-split and vs a k-split with pieces that may exceed 65535
 *   h_crc echo LO HI            content/state coincidences: for every state c in [LO,HI), prefixes of 0..7 bytes, then the two
 *                               bytes that make (running state XOR data) equal 0, 0xFFFF, 0x8000, 0x0001, 0xA001, 0x00FF, 0xFF00,
 *                               followed by 2 or 6 bytes of 0x00 / 0xFF and a short tail; whole, split at the prefix, vs reference
 *   h_crc zeros SEED LEN        one call over LEN zero bytes (untouched anonymous memory, so any LEN is cheap) from several non-zero
 *                               states, whole and in two pieces; reference = the one-zero-byte step raised to the LEN-th power
 *                               (16x16 matrix over GF(2), repeated squaring)
 *   h_crc first K SEED          what the very first call of a process does must not matter: first call with K bytes (K = 0..3 and
 *                               a few larger), then random buffers whole / split vs reference in the same process
 *   h_crc alias SEED N          the 16-bit accumulator lies INSIDE the buffer it is asked to checksum (a record with its own CRC field,
 *                               the residue check crc(&c, &c, 2)): expected = CRC of the buffer as it was when the call was made
 *   h_crc huge SEED LEN         one buffer of LEN bytes (LEN may exceed 2^32), whole and 2-split, vs reference
 * Prints "MISMATCH ..." lines (at most 20) and one "SUMMARY ..." line.
 */
#include <stdio.h>
#include <stdlib.h>
#include <string.h>
#include <stdint.h>
#include <sys/mman.h>
#include "crc16.h"

static uint16_t ref_step(uint16_t c, uint8_t b)
{
	int i;
	c ^= b;
	for (i = 0; i < 8; ++i) {
		c = (c & 1) ? (uint16_t) ((c >> 1) ^ 0xA001) : (uint16_t) (c >> 1);
	}
	return c;
}

static uint16_t ref_buf(uint16_t c, const uint8_t *p, size_t n)
{
	size_t i;
	for (i = 0; i < n; ++i) c = ref_step(c, p[i]);
	return c;
}

static uint64_t sm_state;
static uint64_t sm(void)
{
	uint64_t z = (sm_state += 0x9E3779B97F4A7C15ULL);
	z = (z ^ (z >> 30)) * 0xBF58476D1CE4E5B9ULL;
	z = (z ^ (z >> 27)) * 0x94D049BB133111EBULL;
	return z ^ (z >> 31);
}

static unsigned long mism;
static void report(const char *kind, uint16_t c0, const uint8_t *p, size_t n, size_t split,
                   unsigned got, unsigned want)
{
	size_t i;
	if (mism++ >= 20) return;
	printf("MISMATCH kind=%s init=%04x len=%zu split=%zu got=%04x want=%04x data=", kind, c0, n, split, got, want);
	for (i = 0; i < n && i < 64; ++i) printf("%02x", p[i]);
	printf("\n");
}

int main(int argc, char **argv)
{
	unsigned long long cases = 0, splits = 0;
	if (argc < 4) return 2;
	if (!strcmp(argv[1], "pairs")) {
		unsigned lo = atoi(argv[2]), hi = atoi(argv[3]), c, b;
		/* an empty piece - given as (NULL, 0), as the repository's own unit test does, or as (pointer, 0) - leaves every state as it is */
		for (c = lo; c < hi; ++c) {
			uint16_t v = (uint16_t) c; uint8_t dummy = 0x5a;
			lha_crc16_buf(&v, NULL, 0);
			if (v != c) report("empty-piece-null", c, &dummy, 0, 0, v, c);
			v = (uint16_t) c; lha_crc16_buf(&v, &dummy, 0);
			if (v != c) report("empty-piece-pointer", c, &dummy, 0, 0, v, c);
			++splits;
		}
		for (c = lo; c < hi; ++c) for (b = 0; b < 256; ++b) {
			uint16_t v = (uint16_t) c; uint8_t by = (uint8_t) b;
			lha_crc16_buf(&v, &by, 1);
			if (v != ref_step((uint16_t) c, by)) report("pair", c, &by, 1, 0, v, ref_step((uint16_t) c, by));
			++cases;
		}
	} else if (!strcmp(argv[1], "pairs2")) {
		unsigned lo = atoi(argv[2]), hi = atoi(argv[3]), c, w;
		for (c = lo; c < hi; ++c) for (w = 0; w < 65536; ++w) {
			uint8_t by[2]; uint16_t v, s, want;
			by[0] = (uint8_t) (w >> 8); by[1] = (uint8_t) w;
			want = ref_step(ref_step((uint16_t) c, by[0]), by[1]);
			v = (uint16_t) c; lha_crc16_buf(&v, by, 2);
			s = (uint16_t) c; lha_crc16_buf(&s, by, 1); lha_crc16_buf(&s, by + 1, 1);
			if (v != want) report("pair2-whole", c, by, 2, 0, v, want);
			if (s != want) report("pair2-split", c, by, 2, 1, s, want);
			++cases; ++splits;
		}
	} else if (!strcmp(argv[1], "random")) {
		unsigned long n = strtoul(argv[3], NULL, 10), k;
		static const unsigned lens[] = {0, 1, 2, 3, 4, 7, 8, 9, 15, 16, 17, 31, 32, 33, 255, 256, 257};
		uint8_t *arena = malloc(4096 + 16);
		sm_state = strtoull(argv[2], NULL, 10);
		for (k = 0; k < n; ++k) {
			uint64_t r = sm();
			size_t len = (r & 3) == 0 ? lens[(r >> 8) % (sizeof(lens) / sizeof(*lens))] : (r >> 8) % 4097;
			unsigned mis = (r >> 32) & 7;
			uint16_t c0 = (r >> 40) & 1 ? 0 : (uint16_t) (r >> 44);
			uint8_t *p = arena + mis;
			uint16_t whole, want;
			size_t i;
			for (i = 0; i < len; i += 8) { uint64_t x = sm(); memcpy(p + i, &x, len - i < 8 ? len - i : 8); }
			want = ref_buf(c0, p, len);
			whole = c0; lha_crc16_buf(&whole, p, len);
			if (whole != want) report("random-whole", c0, p, len, 0, whole, want);
			++cases;
			if (len <= 40) {            /* every 2-split */
				for (i = 0; i <= len; ++i) {
					uint16_t s = c0;
					lha_crc16_buf(&s, p, i); lha_crc16_buf(&s, p + i, len - i);
					if (s != want) report("random-2split", c0, p, len, i, s, want);
					++splits;
				}
			} else {                    /* random k-split incl. empty pieces */
				uint16_t s = c0; size_t pos = 0;
				while (pos < len) {
					size_t piece = sm() % 5 == 0 ? 0 : 1 + sm() % (len - pos);
					if (sm() % 3 == 0 && piece > 9) piece = 1 + piece % 9;
					lha_crc16_buf(&s, (piece == 0 && sm() % 2) ? NULL : p + pos, piece); pos += piece;
				}
				lha_crc16_buf(&s, p + pos, 0);
				if (s != want) report("random-ksplit", c0, p, len, 0, s, want);
				++splits;
			}
		}
		free(arena);
	} else if (!strcmp(argv[1], "echo")) {
		static const uint16_t XS[] = {0, 0xFFFF, 0x8000, 0x0001, 0xA001, 0x00FF, 0xFF00};
		unsigned lo = atoi(argv[2]), hi = atoi(argv[3]), c, off, xi, f, fl;
		uint8_t arena[64];
		sm_state = 0x1234567 + lo;
		for (c = lo; c < hi; ++c) for (off = 0; off < 8; ++off) for (xi = 0; xi < sizeof(XS) / sizeof(*XS); ++xi)
		for (f = 0; f < 2; ++f) for (fl = 2; fl <= 6; fl += 4) {
			uint8_t *p = arena + (c & 3); size_t n = 0, i, tail; uint16_t st, want, whole, sp; uint64_t r = sm();
			for (i = 0; i < off; ++i) p[n++] = (uint8_t) (r >> (8 * i));
			st = ref_buf((uint16_t) c, p, off);
			p[n++] = (uint8_t) ((st ^ XS[xi]) & 0xff); p[n++] = (uint8_t) ((st ^ XS[xi]) >> 8);
			for (i = 0; i < fl; ++i) p[n++] = f ? 0xFF : 0x00;
			tail = (r >> 60) & 3;
			for (i = 0; i < tail; ++i) p[n++] = (uint8_t) (r >> (40 + 8 * i));
			want = ref_buf((uint16_t) c, p, n);
			whole = (uint16_t) c; lha_crc16_buf(&whole, p, n);
			if (whole != want) report("echo-whole", c, p, n, 0, whole, want);
			sp = (uint16_t) c; lha_crc16_buf(&sp, p, off); lha_crc16_buf(&sp, p + off, n - off);
			if (sp != want) report("echo-split-at-prefix", c, p, n, off, sp, want);
			++cases; ++splits;
		}
	} else if (!strcmp(argv[1], "first")) {
		size_t k0 = (size_t) atoi(argv[2]); unsigned it; uint8_t first[64]; uint16_t c = 0, want;
		uint8_t *arena = malloc(5000);
		sm_state = strtoull(argv[3], NULL, 10);
		memset(first, 0x31, sizeof first);
		lha_crc16_buf(&c, k0 ? first : NULL, k0);
		want = ref_buf(0, first, k0);
		if (c != want) report("first-call", 0, first, k0, 0, c, want);
		for (it = 0; it < 3000; ++it) {
			size_t len = it < 40 ? it : (size_t) (sm() % 4097), i, cut; uint16_t c0 = (uint16_t) sm(), whole, sp;
			for (i = 0; i < len; i += 8) { uint64_t x = sm(); memcpy(arena + i, &x, len - i < 8 ? len - i : 8); }
			want = ref_buf(c0, arena, len);
			whole = c0; lha_crc16_buf(&whole, arena, len);
			if (whole != want) report("after-short-first-call-whole", c0, arena, len, 0, whole, want);
			cut = len ? (size_t) (sm() % (len + 1)) : 0;
			sp = c0; lha_crc16_buf(&sp, arena, cut); lha_crc16_buf(&sp, arena + cut, len - cut);
			if (sp != want) report("after-short-first-call-split", c0, arena, len, cut, sp, want);
			++cases; ++splits;
		}
		free(arena);
	} else if (!strcmp(argv[1], "alias")) {
		unsigned long n = strtoul(argv[3], NULL, 10), k;
		uint16_t store[40];                 /* 80 bytes, 2-byte aligned */
		uint8_t snap[80];
		sm_state = strtoull(argv[2], NULL, 10);
		for (k = 0; k < n; ++k) {
			size_t len = 2 + (size_t) (sm() % 78), slot, i; uint16_t init, want;
			for (i = 0; i < 40; ++i) store[i] = (uint16_t) sm();
			len &= ~(size_t) 0;              /* any length 2..79 */
			slot = (size_t) (sm() % (len / 2));          /* the accumulator is 16-bit word number `slot` of the buffer */
			if (k % 3 == 0) store[slot] = 0;                 /* the usual record layout: CRC field zeroed before the call */
			memcpy(snap, store, sizeof snap);
			init = store[slot];
			want = ref_buf(init, snap, len);
			lha_crc16_buf(&store[slot], (uint8_t *) store, len);
			if (store[slot] != want) report("accumulator-inside-buffer", init, snap, len, slot * 2, store[slot], want);
			++cases;
		}
	} else if (!strcmp(argv[1], "zeros")) {
		/* M[i] = image of basis vector i under "feed one zero byte" */
		uint16_t M[16], P[16], R[16]; int i, j; unsigned long long n = strtoull(argv[3], NULL, 10), e;
		uint8_t *z = mmap(NULL, n ? n : 1, PROT_READ, MAP_PRIVATE | MAP_ANONYMOUS | MAP_NORESERVE, -1, 0);
		if (z == MAP_FAILED) { fprintf(stderr, "HARNESS cannot map %llu bytes\n", n); return 3; }
		sm_state = strtoull(argv[2], NULL, 10);
		for (i = 0; i < 16; ++i) { M[i] = ref_step((uint16_t) (1u << i), 0); R[i] = (uint16_t) (1u << i); }
		for (e = n; e; e >>= 1) {
			if (e & 1) { for (i = 0; i < 16; ++i) { uint16_t v = 0; for (j = 0; j < 16; ++j) if (R[i] & (1u << j)) v ^= M[j]; P[i] = v; } memcpy(R, P, sizeof R); }
			for (i = 0; i < 16; ++i) { uint16_t v = 0; for (j = 0; j < 16; ++j) if (M[i] & (1u << j)) v ^= M[j]; P[i] = v; }
			memcpy(M, P, sizeof M);
		}
		for (i = 0; i < (n >= (1ull << 30) ? 1 : 3); ++i) {
			uint16_t c0 = (uint16_t) (sm() | 1), want = 0, whole, sp; size_t cut = (size_t) (sm() % (n + 1));
			for (j = 0; j < 16; ++j) if (c0 & (1u << j)) want ^= R[j];
			whole = c0; lha_crc16_buf(&whole, z, (size_t) n);
			if (whole != want) report("zeros-whole", c0, z, (size_t) n, 0, whole, want);
			if (argc > 4 && !strcmp(argv[4], "whole-only")) { ++cases; continue; }
			sp = c0; lha_crc16_buf(&sp, z, cut); lha_crc16_buf(&sp, z + cut, (size_t) n - cut);
			if (sp != want) report("zeros-2split", c0, z, (size_t) n, cut, sp, want);
			++cases; ++splits;
		}
		munmap(z, n ? n : 1);
	} else if (!strcmp(argv[1], "long") || !strcmp(argv[1], "huge")) {
		size_t *lens = malloc(4096 * sizeof(size_t)), nl = 0, maxlen = 0, li;
		uint8_t *arena;
		sm_state = strtoull(argv[2], NULL, 10);
		if (!strcmp(argv[1], "huge")) {
			lens[nl++] = (size_t) strtoull(argv[3], NULL, 10);
		} else {
			unsigned k, maxk = atoi(argv[3]);
			for (k = 8; k <= maxk; ++k) { lens[nl++] = ((size_t) 1 << k) - 1; lens[nl++] = (size_t) 1 << k; lens[nl++] = ((size_t) 1 << k) + 1; }
			for (k = 2; k <= 9; ++k) { lens[nl++] = (size_t) k * 65536; lens[nl++] = (size_t) k * 65536 + sm() % 65536; }
			for (k = 0; k < 24; ++k) lens[nl++] = 65536 + sm() % ((1u << 21) - 65536);
			for (k = 0; k < 24; ++k) lens[nl++] = 256 + sm() % 70000;
		}
		for (li = 0; li < nl; ++li) if (lens[li] > maxlen) maxlen = lens[li];
		arena = malloc(maxlen + 16);
		if (!arena) { fprintf(stderr, "HARNESS cannot allocate %zu bytes\n", maxlen); return 3; }
		for (li = 0; li < nl; ++li) {
			size_t len = lens[li], i, cut, pos;
			unsigned mis = sm() & 7;
			uint16_t c0 = (sm() & 1) ? 0 : (uint16_t) sm();
			uint8_t *p = arena + mis;
			uint16_t whole, want, s;
			for (i = 0; i + 8 <= len; i += 8) { uint64_t x = sm(); memcpy(p + i, &x, 8); }
			for (; i < len; ++i) p[i] = (uint8_t) sm();
			want = ref_buf(c0, p, len);
			whole = c0; lha_crc16_buf(&whole, p, len);
			if (whole != want) report("long-whole", c0, p, len, 0, whole, want);
			++cases;
			cut = sm() % (len + 1);
			s = c0; lha_crc16_buf(&s, p, cut); lha_crc16_buf(&s, p + cut, len - cut);
			if (s != want) report("long-2split", c0, p, len, cut, s, want);
			++splits;
			s = c0; pos = 0;
			while (pos < len) {
				size_t piece = 1 + sm() % (len - pos);
				if (sm() % 2 && piece > 200000) piece = 60000 + piece % 140000;   /* pieces around 65536 */
				lha_crc16_buf(&s, p + pos, piece); pos += piece;
			}
			if (s != want) report("long-ksplit", c0, p, len, 0, s, want);
			++splits;
		}
		free(arena); free(lens);
	} else return 2;
	printf("SUMMARY mode=%s cases=%llu splits=%llu mismatches=%lu\n", argv[1], cases, splits, mism);
	return 0;
}
