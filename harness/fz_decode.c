/* libFuzzer target (thorough tier of C09): byte 0 selects one of the 14 method names, byte 1 the declared length class and
 * the read size, the rest is compressed data.  The decoder state and the output buffer live in separate exact-size heap blocks
 * (direct per-type callbacks) on odd selectors, and behind lha_decoder_read with an exact-size caller buffer on even ones. */
#include <stdint.h>
#include <stddef.h>
#include <stdlib.h>
#include <string.h>
#include "lib/lha_decoder.h"

static const char *NAMES[14] = { "-lz4-", "-lz5-", "-lzs-", "-lh0-", "-lh1-", "-lh4-", "-lh5-", "-lh6-", "-lh7-", "-lhx-", "-lk7-", "-pm0-", "-pm1-", "-pm2-" };
typedef struct { const uint8_t *p; size_t len, pos; } Src;
static size_t cb(void *buf, size_t n, void *u) { Src *s = u; size_t k = s->len - s->pos; if (k > n) k = n; memcpy(buf, s->p + s->pos, k); s->pos += k; return k; }

int LLVMFuzzerTestOneInput(const uint8_t *data, size_t size)
{
	static const size_t DECL[4] = { 0, 1, 3000, 70000 };
	static const size_t RD[8] = { 1, 2, 3, 7, 64, 500, 4096, 100000 };
	LHADecoderType *dt; Src src; size_t declared, ask, total = 0; unsigned iters = 0;
	if (size < 2) return 0;
	dt = lha_decoder_for_name((char *) NAMES[data[0] % 14]);
	declared = DECL[data[1] & 3]; ask = RD[(data[1] >> 2) & 7];
	src.p = data + 2; src.len = size - 2; src.pos = 0;
	if (data[0] & 0x80) {
		void *state = calloc(1, dt->extra_size ? dt->extra_size : 1); uint8_t *ob = malloc(dt->max_read ? dt->max_read : 1);
		if (dt->init == NULL || dt->init(state, cb, &src)) {
			while (total < declared && ++iters < 200000) { size_t n = dt->read(state, ob); if (n > dt->max_read) abort(); if (n == 0) break; total += n; }
			if (dt->free) dt->free(state);
		}
		free(state); free(ob);
	} else {
		LHADecoder *d = lha_decoder_new(dt, cb, &src, declared);
		if (d) {
			for (;;) {
				uint8_t *rb = malloc(ask); size_t n = lha_decoder_read(d, rb, ask);
				if (n > ask) abort();
				free(rb); total += n;
				if (n == 0 || ++iters > 200000) break;
			}
			lha_decoder_free(d);
		}
	}
	return 0;
}
