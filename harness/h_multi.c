/* Several LHAReaders at once (C15): interleaved in one thread by an explicit schedule, or one per thread.
 *   h_multi interleave INPUT WORKDIR      h_multi threads INPUT WORKDIR
 * INPUT: u32 nscripts, u32 schedlen, u32 rounds, u8 schedule[schedlen], then per script: u32 kind (2 cb+skip, 3 cb no skip),
 *        u32 nops, u32 alen, (u32 op, u32 arg)[nops], u8 archive[alen].   ops as in h_reader (0 next 1 read 2 readall 3 check 5 extract-named)
 * Output: "READER k" followed by that reader's event lines; threads mode adds "THREADS rounds=R mismatches=M"
 * (each round's per-thread log is compared with the first round's).
 */
#define _GNU_SOURCE
#include <stdio.h>
#include <stdlib.h>
#include <string.h>
#include <stdint.h>
#include <unistd.h>
#include <pthread.h>
#include "lha_reader.h"

typedef struct { const uint8_t *p; size_t len, pos; } Mem;
static int m_read(void *h, void *buf, size_t n) { Mem *m = h; size_t k = m->len - m->pos; if (k > n) k = n; memcpy(buf, m->p + m->pos, k); m->pos += k; return (int) k; }
static int m_skip(void *h, size_t n) { Mem *m = h; if (n > m->len - m->pos) { m->pos = m->len; return 0; } m->pos += n; return 1; }
static const LHAInputStreamType t_skip = { m_read, m_skip, NULL };
static const LHAInputStreamType t_noskip = { m_read, NULL, NULL };

typedef struct {
	uint32_t kind, nops, alen; uint32_t (*ops)[2]; uint8_t *arc;
} Script;

typedef struct {
	Script *sc; int id; Mem mem; LHAInputStream *st; LHAReader *rd; uint32_t pc;
	char *log; size_t loglen; FILE *lf;
} Session;

static void hexs(FILE *f, const char *k, const char *s)
{
	fprintf(f, " %s=", k);
	if (!s) { fprintf(f, "-"); return; }
	for (; *s; ++s) fprintf(f, "%02x", (unsigned char) *s);
}

static void sess_open(Session *s, Script *sc, int id)
{
	memset(s, 0, sizeof *s);
	s->sc = sc; s->id = id; s->mem.p = sc->arc; s->mem.len = sc->alen;
	s->lf = open_memstream(&s->log, &s->loglen);
	s->st = lha_input_stream_new(sc->kind == 3 ? &t_noskip : &t_skip, &s->mem);
	s->rd = lha_reader_new(s->st);
}

static int sess_step(Session *s)
{
	uint32_t op, arg; FILE *f = s->lf;
	if (s->pc >= s->sc->nops) return 0;
	op = s->sc->ops[s->pc][0]; arg = s->sc->ops[s->pc][1];
	switch (op) {
	case 0: {
		LHAFileHeader *h = lha_reader_next_file(s->rd);
		if (!h) fprintf(f, "NEXT NULL\n");
		else { fprintf(f, "NEXT fake=%d", lha_reader_current_is_fake(s->rd)); hexs(f, "path", h->path); hexs(f, "name", h->filename);
			hexs(f, "link", h->symlink_target); fprintf(f, " method=%s size=%zu crc=%u\n", h->compress_method, h->length, h->crc); }
		break; }
	case 1: case 2: {
		uint8_t buf[4096]; size_t n, i, tot = 0; unsigned c = 0;
		fprintf(f, op == 1 ? "READ " : "READALL ");
		for (;;) {
			n = lha_reader_read(s->rd, buf, op == 1 ? (arg < sizeof buf ? arg : sizeof buf) : sizeof buf);
			for (i = 0; i < n; ++i) { c = (c * 31 + buf[i]) & 0xffffff; if (tot + i < 64) fprintf(f, "%02x", buf[i]); }
			tot += n;
			if (op == 1 || n == 0 || tot > (8u << 20)) break;
		}
		fprintf(f, " n=%zu h=%u\n", tot, c);
		break; }
	case 3: case 7:
		fprintf(f, "CHECK %d\n", lha_reader_check(s->rd, NULL, NULL));
		break;
	case 4: case 5: {
		char name[64];
		snprintf(name, sizeof name, "m_%d_%u", s->id, s->pc);
		fprintf(f, "EXTRACT %d\n", lha_reader_extract(s->rd, name, NULL, NULL));
		break; }
	default: break;
	}
	++s->pc;
	return 1;
}

static void sess_close(Session *s)
{
	lha_reader_free(s->rd); lha_input_stream_free(s->st);
	fclose(s->lf);
}

static void *thread_main(void *a)
{
	Session *s = a;
	sess_open(s, s->sc, s->id);
	while (sess_step(s)) { }
	sess_close(s);
	return NULL;
}

int main(int argc, char **argv)
{
	FILE *in; uint32_t ns, sl, rounds, i; uint8_t *sched; Script *scs; Session *ss;
	if (argc < 4) return 2;
	in = fopen(argv[2], "rb"); if (!in) return 2;
	if (fread(&ns, 4, 1, in) != 1 || fread(&sl, 4, 1, in) != 1 || fread(&rounds, 4, 1, in) != 1) return 2;
	sched = malloc(sl + 1); if (sl && fread(sched, 1, sl, in) != sl) return 2;
	scs = calloc(ns, sizeof *scs); ss = calloc(ns, sizeof *ss);
	for (i = 0; i < ns; ++i) {
		if (fread(&scs[i].kind, 4, 1, in) != 1 || fread(&scs[i].nops, 4, 1, in) != 1 || fread(&scs[i].alen, 4, 1, in) != 1) return 2;
		scs[i].ops = malloc(8 * (scs[i].nops + 1)); scs[i].arc = malloc(scs[i].alen + 1);
		if (scs[i].nops && fread(scs[i].ops, 8, scs[i].nops, in) != scs[i].nops) return 2;
		if (scs[i].alen && fread(scs[i].arc, 1, scs[i].alen, in) != scs[i].alen) return 2;
	}
	fclose(in);
	if (chdir(argv[3]) != 0) return 2;
	if (!strcmp(argv[1], "interleave")) {
		uint32_t k;
		for (i = 0; i < ns; ++i) sess_open(&ss[i], &scs[i], (int) i);
		for (k = 0; k < sl; ++k) if (sched[k] < ns) sess_step(&ss[sched[k]]);
		for (i = 0; i < ns; ++i) while (sess_step(&ss[i])) { }
		for (i = 0; i < ns; ++i) sess_close(&ss[i]);
		for (i = 0; i < ns; ++i) printf("READER %u\n%s", i, ss[i].log);
	} else if (!strcmp(argv[1], "threads")) {
		uint32_t r; unsigned long mism = 0; char **first = calloc(ns, sizeof *first);
		for (r = 0; r < rounds; ++r) {
			pthread_t *th = calloc(ns, sizeof *th);
			for (i = 0; i < ns; ++i) { memset(&ss[i], 0, sizeof ss[i]); ss[i].sc = &scs[i]; ss[i].id = (int) i; pthread_create(&th[i], NULL, thread_main, &ss[i]); }
			for (i = 0; i < ns; ++i) pthread_join(th[i], NULL);
			for (i = 0; i < ns; ++i) {
				if (r == 0) first[i] = ss[i].log;
				else { if (strcmp(first[i], ss[i].log) != 0) ++mism; free(ss[i].log); }
			}
			free(th);
		}
		for (i = 0; i < ns; ++i) printf("READER %u\n%s", i, first[i]);
		printf("THREADS rounds=%u mismatches=%lu\n", rounds, mism);
	} else return 2;
	printf("DONE\n");
	return 0;
}
