/* M-alloc: link-time allocator monitor (-Wl,--wrap=malloc,calloc,realloc,free,strdup).
 * Only allocations made by lhasa/harness *code* are seen (libc-internal ones are not wrapped).
 * While allocmon_active is set, every allocation is numbered, can be made to fail (fail_at),
 * and is tracked in a pointer table so that the balance at quiescence is exact. */
#include <stdio.h>
#include <stdlib.h>
#include <string.h>
#include <stdint.h>
#include "allocmon.h"

void *__real_malloc(size_t);
void *__real_calloc(size_t, size_t);
void *__real_realloc(void *, size_t);
void __real_free(void *);

int allocmon_active;
long allocmon_nalloc, allocmon_fail_at, allocmon_failed_count;
long allocmon_live_blocks;
size_t allocmon_live_bytes, allocmon_peak_bytes;
long allocmon_untracked_frees;

#define TBL (1u << 16)
static struct { void *p; size_t n; } tbl[TBL];
static unsigned tbl_used;

static unsigned hp(void *p) { uintptr_t x = (uintptr_t) p; x ^= x >> 17; x *= 0x9E3779B1u; return (unsigned) (x >> 7) & (TBL - 1); }

static void track(void *p, size_t n)
{
	unsigned i = hp(p);
	if (tbl_used > TBL - 64) { fprintf(stderr, "HARNESS allocmon table full\n"); abort(); }
	while (tbl[i].p != NULL && tbl[i].p != (void *) 1) i = (i + 1) & (TBL - 1);
	tbl[i].p = p; tbl[i].n = n; ++tbl_used;
	++allocmon_live_blocks;
	allocmon_live_bytes += n;
	if (allocmon_live_bytes > allocmon_peak_bytes) allocmon_peak_bytes = allocmon_live_bytes;
}

static int untrack(void *p)
{
	unsigned i = hp(p), k;
	for (k = 0; k < TBL; ++k, i = (i + 1) & (TBL - 1)) {
		if (tbl[i].p == NULL) return 0;
		if (tbl[i].p == p) {
			tbl[i].p = (void *) 1;      /* tombstone */
			--allocmon_live_blocks;
			allocmon_live_bytes -= tbl[i].n;
			return 1;
		}
	}
	return 0;
}

static int should_fail(void)
{
	if (!allocmon_active) return 0;
	++allocmon_nalloc;
	if (allocmon_fail_at > 0 && allocmon_nalloc == allocmon_fail_at) { ++allocmon_failed_count; return 1; }
	return 0;
}

void *__wrap_malloc(size_t n)
{
	void *p;
	if (should_fail()) return NULL;
	p = __real_malloc(n);
	if (p && allocmon_active) track(p, n);
	return p;
}

void *__wrap_calloc(size_t a, size_t b)
{
	void *p;
	if (should_fail()) return NULL;
	p = __real_calloc(a, b);
	if (p && allocmon_active) track(p, a * b);
	return p;
}

void *__wrap_realloc(void *o, size_t n)
{
	void *p;
	int was;
	if (should_fail()) return NULL;
	was = o ? untrack(o) : 0;
	p = __real_realloc(o, n);
	if (p == NULL) { if (was) track(o, 0); return NULL; }
	if (was || (allocmon_active && o == NULL)) track(p, n);
	return p;
}

void __wrap_free(void *p)
{
	if (p) { if (!untrack(p) && allocmon_active) ++allocmon_untracked_frees; }
	__real_free(p);
}

char *__wrap_strdup(const char *s)
{
	size_t n = strlen(s) + 1;
	char *p = __wrap_malloc(n);
	if (p) memcpy(p, s, n);
	return p;
}

void allocmon_reset(void)
{
	/* forget whatever is still tracked (leaked by an abandoned case) */
	memset(tbl, 0, sizeof tbl);
	tbl_used = 0;
	allocmon_nalloc = allocmon_failed_count = allocmon_live_blocks = allocmon_untracked_frees = 0;
	allocmon_live_bytes = allocmon_peak_bytes = 0;
	allocmon_fail_at = 0;
}

/* stdio step counter: fread/fseek/ftell issued by library code (FILE-backed stream kinds) are counted like the
 * callback kinds' read/skip invocations, so that non-termination there is decided by a deterministic budget too. */
size_t __real_fread(void *, size_t, size_t, FILE *);
int __real_fseek(FILE *, long, int);
long __real_ftell(FILE *);
unsigned long allocmon_file_reads, allocmon_file_seeks;
void (*allocmon_step_hook)(void);

size_t __wrap_fread(void *p, size_t a, size_t b, FILE *f)
{
	if (allocmon_active) { ++allocmon_file_reads; if (allocmon_step_hook) allocmon_step_hook(); }
	return __real_fread(p, a, b, f);
}
int __wrap_fseek(FILE *f, long o, int w)
{
	if (allocmon_active) { ++allocmon_file_seeks; if (allocmon_step_hook) allocmon_step_hook(); }
	return __real_fseek(f, o, w);
}
long __wrap_ftell(FILE *f)
{
	return __real_ftell(f);
}
