/* Decoder-API driver (C01-C04, C09, C14).
 *   h_decode CASES OUT MARKER
 * CASES: sequence of records (little endian):
 *   u32 magic 0x43534544 ("DESC"), u32 case_id, char method[8], u64 declared_len, u32 flags,
 *   u32 attach_after, u64 max_total, u32 in_chunk, u32 nsched, u32 sched[nsched], u32 slen, u8 stream[slen]
 *   flags: 1 = drive dtype->init/read directly with state and output in separate exact-size heap blocks (C09)
 *          2 = attach progress monitor after `attach_after` reads
 *          4 = do not store output bytes (only length/crc/hash)
 * After the schedule is exhausted its last entry repeats; nsched == 0 means reads of 4096.
 * OUT: per case  u32 case_id, u32 status, u64 total, u32 crc_reported, u64 len_reported, u32 crc_own,
 *      u32 nreads, u32 api_violations, u32 ncb_total, u32 ncb, (u32 num, u32 tot)[ncb], u64 nout, u8 out[nout]
 *   status: 0 ok, 1 unknown method, 2 decoder_new failed
 *   api_violations bit0: a read returned more than asked; bit1: dtype->read returned > max_read;
 *                  bit2: total exceeded declared length; bit3: zero-length read changed length/crc
 * MARKER: the id of the case being run is written there before it starts.
 */
#include <stdio.h>
#include <stdlib.h>
#include <string.h>
#include <stdint.h>
#include <unistd.h>
#include <fcntl.h>
#include "lib/lha_decoder.h"
#include <sys/time.h>
#include <signal.h>
#include "verif_hooks.h"

/* per-case CPU-time watchdog: a case that burns more than VERIF_CASE_CPU_S seconds of CPU is reported as a hang
 * (exit 3 + "WATCHDOG" on stderr); the driver attributes it to the marked case and restarts after it. */
static void case_watchdog(int sig) { static const char m[] = "\nWATCHDOG case exceeded its CPU budget\n"; (void) sig; if (write(2, m, sizeof m - 1) < 0) { } _exit(3); }
static void arm_watchdog(void)
{
	struct itimerval it; const char *e = getenv("VERIF_CASE_CPU_S"); long s = e ? atol(e) : 30;
	memset(&it, 0, sizeof it); it.it_value.tv_sec = s > 0 ? s : 30;
	signal(SIGPROF, case_watchdog);
	setitimer(ITIMER_PROF, &it, NULL);
}


typedef struct { const uint8_t *p; size_t len, pos; uint32_t chunk; unsigned long calls; } Src;

static size_t src_cb(void *buf, size_t n, void *u)
{
	Src *s = u;
	size_t k = s->len - s->pos;
	++s->calls;
	if (k > n) k = n;
	if (s->chunk && k > s->chunk) k = s->chunk;
	memcpy(buf, s->p + s->pos, k);
	s->pos += k;
	return k;
}

#define MAXCB 4096
static uint32_t cbs[MAXCB][2];
static uint32_t ncb;
static void progress_cb(unsigned int num, unsigned int tot, void *u)
{
	(void) u;
	if (ncb < MAXCB) { cbs[ncb][0] = num; cbs[ncb][1] = tot; }
	++ncb;
}

static uint16_t crc_own(uint16_t c, const uint8_t *p, size_t n)
{
	size_t i; int k;
	for (i = 0; i < n; ++i) {
		c ^= p[i];
		for (k = 0; k < 8; ++k) c = (c & 1) ? (uint16_t) ((c >> 1) ^ 0xA001) : (uint16_t) (c >> 1);
	}
	return c;
}

static uint8_t *filedata; static size_t filelen, filepos;
static int rd(void *dst, size_t n) { if (filepos + n > filelen) return 0; memcpy(dst, filedata + filepos, n); filepos += n; return 1; }
static void w32(FILE *f, uint32_t v) { fwrite(&v, 4, 1, f); }
static void w64(FILE *f, uint64_t v) { fwrite(&v, 8, 1, f); }

/* Uninitialised-memory differential: with VERIF_STACK_FILL=<0..255> the stack region the library calls are about to use is filled
 * with that byte before every case (and ASan's malloc_fill_byte does the same for fresh heap blocks).  A case whose output differs
 * between two fill values let an uninitialised byte decide it. */
static void __attribute__((noinline)) scribble_stack(void)
{
	static int fill = -2;
	if (fill == -2) { const char *e = getenv("VERIF_STACK_FILL"); fill = e ? atoi(e) : -1; }
	if (fill >= 0) { volatile unsigned char pad[96 * 1024]; size_t i; for (i = 0; i < sizeof pad; ++i) pad[i] = (unsigned char) fill; }
}

int main(int argc, char **argv)
{
	FILE *in, *out; int mfd; unsigned long ncases = 0;
	if (argc < 4) return 2;
	in = fopen(argv[1], "rb"); if (!in) return 2;
	fseek(in, 0, SEEK_END); filelen = ftell(in); fseek(in, 0, SEEK_SET);
	filedata = malloc(filelen + 1); if (fread(filedata, 1, filelen, in) != filelen) return 2; fclose(in);
	out = fopen(argv[2], "wb"); if (!out) return 2;
	mfd = open(argv[3], O_WRONLY | O_CREAT, 0644); if (mfd < 0) return 2;

	for (;;) {
		uint32_t magic, id, flags, attach_after, in_chunk, nsched, slen, *sched, i;
		char method[8]; uint64_t declared, max_total;
		const uint8_t *stream; Src src;
		uint8_t *obuf = NULL; size_t ocap = 0, total = 0; uint32_t nreads = 0, apiv = 0, status = 0;
		uint16_t own = 0; uint32_t crc_rep = 0; uint64_t len_rep = 0;
		LHADecoderType *dt;

		if (!rd(&magic, 4)) break;
		if (magic != 0x43534544) { fprintf(stderr, "bad magic\n"); return 2; }
		rd(&id, 4); rd(method, 8); rd(&declared, 8); rd(&flags, 4); rd(&attach_after, 4); rd(&max_total, 8);
		rd(&in_chunk, 4); rd(&nsched, 4);
		sched = (uint32_t *) malloc(4 * (nsched + 1));
		for (i = 0; i < nsched; ++i) rd(&sched[i], 4);
		rd(&slen, 4);
		if (filepos + slen > filelen) { fprintf(stderr, "short case\n"); return 2; }
		/* give the stream its own exact-size block so over-reads of the *input* are seen too */
		{ uint8_t *s = malloc(slen ? slen : 1); memcpy(s, filedata + filepos, slen); stream = s; filepos += slen; }
		{ char mb[16]; int n = snprintf(mb, sizeof mb, "%u\n", id); if (pwrite(mfd, mb, n, 0) < 0) return 2; }
		arm_watchdog();
		scribble_stack();
		src.p = stream; src.len = slen; src.pos = 0; src.chunk = in_chunk; src.calls = 0;
		ncb = 0; method[7] = 0;
		dt = lha_decoder_for_name(method);
		if (dt == NULL) { status = 1; goto emit; }

		if (flags & 1) {
			/* direct callback mode: state and output buffer in separate exact-size heap blocks */
			void *state = calloc(1, dt->extra_size ? dt->extra_size : 1);
			uint8_t *ob = malloc(dt->max_read ? dt->max_read : 1);
			unsigned long iters = 0;
			if (dt->init != NULL && !dt->init(state, src_cb, &src)) { status = 2; free(state); free(ob); goto emit; }
			while (total < declared && total < max_total) {
				size_t n = dt->read(state, ob);
				++nreads;
				if (n > dt->max_read) { apiv |= 2; break; }
				if (n == 0) break;
				if (!(flags & 4)) {
					if (total + n > ocap) { ocap = (total + n) * 2 + 4096; obuf = realloc(obuf, ocap); }
					memcpy(obuf + total, ob, n);
				}
				own = crc_own(own, ob, n);
				total += n;
				if (++iters > 400000000UL) break;
			}
			if (dt->free != NULL) dt->free(state);
			free(state); free(ob);
			crc_rep = own; len_rep = total;
		} else {
			LHADecoder *d = lha_decoder_new(dt, src_cb, &src, (size_t) declared);
			uint32_t si = 0; int attached = 0;
			if (d == NULL) { status = 2; goto emit; }
			for (;;) {
				size_t ask, n; uint8_t *rb;
				if ((flags & 2) && !attached && nreads >= attach_after) { lha_decoder_monitor(d, progress_cb, NULL); attached = 1; }
				if (nsched == 0) ask = 4096; else { ask = sched[si < nsched ? si : nsched - 1]; if (si < nsched) ++si; }
				if (total >= max_total) break;
				/* exact-size caller buffer: ASan sees any write past what was asked for */
				rb = malloc(ask ? ask : 1);
				if (ask == 0) {
					uint16_t c0 = lha_decoder_get_crc(d); size_t l0 = lha_decoder_get_length(d);
					n = lha_decoder_read(d, rb, 0);
					if (n != 0) apiv |= 1;
					if (c0 != lha_decoder_get_crc(d) || l0 != lha_decoder_get_length(d)) apiv |= 8;
					free(rb); ++nreads;
					if (si >= nsched) break;     /* a trailing 0 must not loop forever */
					continue;
				}
				n = lha_decoder_read(d, rb, ask);
				++nreads;
				if (n > ask) { apiv |= 1; free(rb); break; }
				if (!(flags & 4) && n > 0) {
					if (total + n > ocap) { ocap = (total + n) * 2 + 4096; obuf = realloc(obuf, ocap); }
					memcpy(obuf + total, rb, n);
				}
				own = crc_own(own, rb, n);
				total += n; free(rb);
				if (total > declared) apiv |= 4;
				/* the accessors describe exactly the bytes handed out so far - after every read, not only at the end */
				if (lha_decoder_get_crc(d) != own || lha_decoder_get_length(d) != total) apiv |= 16;
				if (n == 0) break;
				if (flags & 8) break;        /* reference mode: exactly one (maximal) read call */
			}
			if ((flags & 2) && !attached) { lha_decoder_monitor(d, progress_cb, NULL); attached = 1; }
			crc_rep = lha_decoder_get_crc(d); len_rep = lha_decoder_get_length(d);
			lha_decoder_free(d);
		}
emit:
		w32(out, id); w32(out, status); w64(out, total); w32(out, crc_rep); w64(out, len_rep); w32(out, own);
		w32(out, nreads); w32(out, apiv); w32(out, ncb); w32(out, ncb < MAXCB ? ncb : MAXCB);
		for (i = 0; i < ncb && i < MAXCB; ++i) { w32(out, cbs[i][0]); w32(out, cbs[i][1]); }
		if (flags & 4) { w64(out, 0); } else { w64(out, total); if (total) fwrite(obuf, 1, total, out); }
		free(obuf); free(sched); free((void *) stream);
		++ncases;
	}
	fclose(out);
	lhasa_verif_stats(stdout);
	printf("DONE cases=%lu\n", ncases);
	return 0;
}
