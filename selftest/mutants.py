"""Sensitivity catalogue: small, compiling breaks of /repo that the existing test suite does not
notice (or that stand for a class of realistic slips).  Each entry: id, props (checks expected to
kill it), file/old/new (exactly one occurrence) or edits=[(file, old, new), ...]."""
MUTANTS = [
    # ---- C01 ----
    dict(id='c01-skip-after-4', props=['C01'], file='lib/lh_new_decoder.c',
         old='if (i == 2) {', new='if (i == 3) {'),
    dict(id='c01-run2-base19', props=['C01'], file='lib/lh_new_decoder.c',
         old='result += 20;', new='result += 19;'),
    dict(id='c01-copy-start-no-minus1', props=['C01'], file='lib/lh_new_decoder.c',
         old='- (unsigned int) offset - 1;', new='- (unsigned int) offset;'),
    dict(id='c01-lhark-len-base', props=['C01'], file='lib/lh_new_decoder.c',
         old='return ((4 + (code % 4)) << num_low_bits) + low_bits + 3;',
         new='return ((4 + (code % 4)) << num_low_bits) + low_bits + 2;'),
    dict(id='c01-len16-unary-cap', props=['C01'], file='lib/lh_new_decoder.c',
         old='\t\t\t++len;\n\t\t}\n\t}\n\n\treturn len;', new='\t\t\tif (len < 15) ++len;\n\t\t}\n\t}\n\n\treturn len;'),
    dict(id='c01-lhx-ring-halved', props=['C01'], file='lib/lhx_decoder.c',
         old='#define HISTORY_BITS    20', new='#define HISTORY_BITS    18'),
]
