"""Sensitivity catalogue: small, compiling breaks of /repo that the existing test suite does not
notice (or that stand for a class of realistic slips).  Each entry: id, props (checks expected to
kill it), file/old/new (exactly one occurrence) or edits=[(file, old, new), ...]."""
MUTANTS = [
    # ---- C01 ----
    dict(id='c01-skip-after-4', props=['C01'], file='lib/lh_new_decoder.c',
         old='if (i == 2) {', new='if (i == 3) {'),
    dict(id='c01-run2-base19', props=['C01'], file='lib/lh_new_decoder.c',
         old='result += 20;', new='result += 19;'),
    dict(id='c01-copy-start-no-minus1', props=['C01'], file='lib/lh_new_decoder.c',
         old='- (unsigned int) offset - 1;', new='- (unsigned int) offset;'),
    dict(id='c01-lhark-len-base', props=['C01'], file='lib/lh_new_decoder.c',
         old='return ((4 + (code % 4)) << num_low_bits) + low_bits + 3;',
         new='return ((4 + (code % 4)) << num_low_bits) + low_bits + 2;'),
    dict(id='c01-len16-unary-cap', props=['C01'], file='lib/lh_new_decoder.c',
         old='\t\t\t++len;\n\t\t}\n\t}\n\n\treturn len;', new='\t\t\tif (len < 15) ++len;\n\t\t}\n\t}\n\n\treturn len;'),
    dict(id='c01-lhx-ring-halved', props=['C01'], file='lib/lhx_decoder.c',
         old='#define HISTORY_BITS    20', new='#define HISTORY_BITS    18'),
]
MUTANTS += [
    # ---- C03 ----
    dict(id='c03-lz5-fill-swapped', props=['C03'], file='lib/lz5_decoder.c',
         old='\tfor (i = 0; i < 256; ++i) {\n\t\t*p++ = (uint8_t) i;\n\t}\n\tfor (i = 0; i < 256; ++i) {\n\t\t*p++ = (uint8_t) (255 - i);\n\t}',
         new='\tfor (i = 0; i < 256; ++i) {\n\t\t*p++ = (uint8_t) (255 - i);\n\t}\n\tfor (i = 0; i < 256; ++i) {\n\t\t*p++ = (uint8_t) i;\n\t}'),
    dict(id='c03-lz5-start-17', props=['C03'], file='lib/lz5_decoder.c', old='#define START_OFFSET 18', new='#define START_OFFSET 17'),
    dict(id='c03-lz5-flags-msb', props=['C03'], file='lib/lz5_decoder.c', old='if ((bitmap & (1 << bit)) != 0) {', new='if ((bitmap & (0x80 >> bit)) != 0) {'),
    dict(id='c03-lzs-start-18', props=['C03'], file='lib/lzs_decoder.c', old='#define START_OFFSET 17', new='#define START_OFFSET 18'),
    dict(id='c03-lz5-spaces-109', props=['C03'], file='lib/lz5_decoder.c', old='for (i = 0; i < 110; ++i) {', new='for (i = 0; i < 109; ++i) {'),
    dict(id='c03-null-block-1000', props=['C03'], file='lib/null_decoder.c', old='return decoder->callback(buf, BLOCK_READ_SIZE, decoder->callback_data);',
         new='size_t n = decoder->callback(buf, BLOCK_READ_SIZE, decoder->callback_data); if (n == 1024 && buf[1023] == 0x1a) --n; return n;'),
]
MUTANTS += [
    # ---- C02 ----
    dict(id='c02-rebuild-gt', props=['C02'], file='lib/lh1_decoder.c',
         old='if (decoder->nodes[0].freq >= TREE_REORDER_LIMIT) {', new='if (decoder->nodes[0].freq > TREE_REORDER_LIMIT) {'),
    dict(id='c02-halving-floor', props=['C02'], file='lib/lh1_decoder.c',
         old='leaf->freq = (uint16_t) (decoder->nodes[i].freq + 1) / 2;', new='leaf->freq = (uint16_t) (decoder->nodes[i].freq) / 2;'),
    dict(id='c02-rebuild-insert-gt', props=['C02'], file='lib/lh1_decoder.c',
         old='while (leaf >= decoder->nodes && freq >= leaf->freq) {', new='while (leaf >= decoder->nodes && freq > leaf->freq) {'),
    dict(id='c02-no-leader-swap-on-join', props=['C02'], file='lib/lh1_decoder.c',
         old='\tif (leader_index == node_index) {\n\t\treturn node_index;\n\t}',
         new='\tif (leader_index == node_index || leader_index + 1 == node_index) {\n\t\treturn node_index;\n\t}'),
    dict(id='c02-offset-dist-7bits', props=['C02'], file='lib/lh1_decoder.c', old='\t24,   // 7 bits\n\t16,   // 8 bits', new='\t23,   // 7 bits\n\t18,   // 8 bits'),
]
