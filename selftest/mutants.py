"""Sensitivity catalogue: small, compiling breaks of /repo that the existing test suite does not
notice (or that stand for a class of realistic slips).  Each entry: id, props (checks expected to
kill it), file/old/new (exactly one occurrence) or edits=[(file, old, new), ...]."""
MUTANTS = [
    # ---- C01 ----
    dict(id='c01-skip-after-4', props=['C01'], file='lib/lh_new_decoder.c',
         old='if (i == 2) {', new='if (i == 3) {'),
    dict(id='c01-run2-base19', props=['C01'], file='lib/lh_new_decoder.c',
         old='result += 20;', new='result += 19;'),
    dict(id='c01-copy-start-no-minus1', props=['C01'], file='lib/lh_new_decoder.c',
         old='- (unsigned int) offset - 1;', new='- (unsigned int) offset;'),
    dict(id='c01-lhark-len-base', props=['C01'], file='lib/lh_new_decoder.c',
         old='return ((4 + (code % 4)) << num_low_bits) + low_bits + 3;',
         new='return ((4 + (code % 4)) << num_low_bits) + low_bits + 2;'),
    dict(id='c01-len16-unary-cap', props=['C01'], file='lib/lh_new_decoder.c',
         old='\t\t\t++len;\n\t\t}\n\t}\n\n\treturn len;', new='\t\t\tif (len < 15) ++len;\n\t\t}\n\t}\n\n\treturn len;'),
    dict(id='c01-lhx-ring-halved', props=['C01'], file='lib/lhx_decoder.c',
         old='#define HISTORY_BITS    20', new='#define HISTORY_BITS    18'),
]
MUTANTS += [
    # ---- C03 ----
    dict(id='c03-lz5-fill-swapped', props=['C03'], file='lib/lz5_decoder.c',
         old='\tfor (i = 0; i < 256; ++i) {\n\t\t*p++ = (uint8_t) i;\n\t}\n\tfor (i = 0; i < 256; ++i) {\n\t\t*p++ = (uint8_t) (255 - i);\n\t}',
         new='\tfor (i = 0; i < 256; ++i) {\n\t\t*p++ = (uint8_t) (255 - i);\n\t}\n\tfor (i = 0; i < 256; ++i) {\n\t\t*p++ = (uint8_t) i;\n\t}'),
    dict(id='c03-lz5-start-17', props=['C03'], file='lib/lz5_decoder.c', old='#define START_OFFSET 18', new='#define START_OFFSET 17'),
    dict(id='c03-lz5-flags-msb', props=['C03'], file='lib/lz5_decoder.c', old='if ((bitmap & (1 << bit)) != 0) {', new='if ((bitmap & (0x80 >> bit)) != 0) {'),
    dict(id='c03-lzs-start-18', props=['C03'], file='lib/lzs_decoder.c', old='#define START_OFFSET 17', new='#define START_OFFSET 18'),
    dict(id='c03-lz5-spaces-109', props=['C03'], file='lib/lz5_decoder.c', old='for (i = 0; i < 110; ++i) {', new='for (i = 0; i < 109; ++i) {'),
    dict(id='c03-null-block-1000', props=['C03'], file='lib/null_decoder.c', old='return decoder->callback(buf, BLOCK_READ_SIZE, decoder->callback_data);',
         new='size_t n = decoder->callback(buf, BLOCK_READ_SIZE, decoder->callback_data); if (n == 1024 && buf[1023] == 0x1a) --n; return n;'),
]
MUTANTS += [
    # ---- C02 ----
    dict(id='c02-rebuild-gt', props=['C02'], file='lib/lh1_decoder.c',
         old='if (decoder->nodes[0].freq >= TREE_REORDER_LIMIT) {', new='if (decoder->nodes[0].freq > TREE_REORDER_LIMIT) {'),
    dict(id='c02-halving-floor', props=['C02'], file='lib/lh1_decoder.c',
         old='leaf->freq = (uint16_t) (decoder->nodes[i].freq + 1) / 2;', new='leaf->freq = (uint16_t) (decoder->nodes[i].freq) / 2;'),
    dict(id='c02-rebuild-insert-gt', props=['C02'], file='lib/lh1_decoder.c',
         old='while (leaf >= decoder->nodes && freq >= leaf->freq) {', new='while (leaf >= decoder->nodes && freq > leaf->freq) {'),
    dict(id='c02-no-leader-swap-on-join', props=['C02'], file='lib/lh1_decoder.c',
         old='\tif (leader_index == node_index) {\n\t\treturn node_index;\n\t}',
         new='\tif (leader_index == node_index || leader_index + 1 == node_index) {\n\t\treturn node_index;\n\t}'),
    dict(id='c02-offset-dist-7bits', props=['C02'], file='lib/lh1_decoder.c', old='\t24,   // 7 bits\n\t16,   // 8 bits', new='\t23,   // 7 bits\n\t18,   // 8 bits'),
]
MUTANTS += [
    # ---- C04 ----
    dict(id='c04-pm2-second-rebuild-2048', props=['C04'], file='lib/pm2_decoder.c',
         old='\t\t\tread_offset_tree(decoder, 6);\n\t\t\tdecoder->tree_state = PM2_REBUILD_BUILD2;\n\t\t\tdecoder->tree_rebuild_remaining = 1024;',
         new='\t\t\tread_offset_tree(decoder, 6);\n\t\t\tdecoder->tree_state = PM2_REBUILD_BUILD2;\n\t\t\tdecoder->tree_rebuild_remaining = 2048;'),
    dict(id='c04-pm2-no-mtf-on-copy', props=['C04'], file='lib/pm2_decoder.c',
         old='\t\toutput_byte(decoder, buf, buf_len, decoder->ringbuf[pos]);',
         new='\t\t{ uint8_t hh = decoder->history_list.history_head; HistoryLinkedList sv = decoder->history_list; output_byte(decoder, buf, buf_len, decoder->ringbuf[pos]); if (decoder->tree_rebuild_remaining != 4096 || 1) { decoder->history_list = sv; (void) hh; } }'),
    dict(id='c04-pm1-threshold-832', props=['C04'], file='lib/pm1_decoder.c',
         old='if (decoder->output_stream_pos < 832) {', new='if (decoder->output_stream_pos < 1088) {'),
    dict(id='c04-pm1-threshold-6720', props=['C04'], file='lib/pm1_decoder.c',
         old='} else if (decoder->output_stream_pos < 6720) {', new='} else if (decoder->output_stream_pos <= 6720) {'),
    dict(id='c04-pm1-no-zero-fill', props=['C04'], file='lib/pm1_decoder.c',
         old='\tif (result == 0) {\n\t\tmemset(buf, 0, buf_len);\n\t\tresult = buf_len;\n\t}', new='\tif (result == 0) {\n\t\tmemset(buf, 0xff, buf_len);\n\t\tresult = buf_len;\n\t}'),
    dict(id='c04-pm2-copy-256-base', props=['C04'], file='lib/pm2_decoder.c', old='\t{ 256, 0 },   // 256 (unique value)', new='\t{ 255, 0 },   // 256 (unique value)'),
    dict(id='c04-pm-mtf-start-order', props=['C04'], file='lib/pma_common.c',
         old='\tlist->history[0x1f].prev = 0xa0;  // 0x00 ... 0x1f -> 0xa0\n\tlist->history[0xa0].next = 0x1f;\n\n\tlist->history[0xdf].prev = 0x80;  // 0xa0 ... 0xdf -> 0x80\n\tlist->history[0x80].next = 0xdf;\n\n\tlist->history[0x9f].prev = 0xe0;  // 0x80 ... 0x9f -> 0xe0\n\tlist->history[0xe0].next = 0x9f;',
         new='\tlist->history[0x1f].prev = 0x80;\n\tlist->history[0x80].next = 0x1f;\n\n\tlist->history[0xdf].prev = 0xe0;\n\tlist->history[0xe0].next = 0xdf;\n\n\tlist->history[0x9f].prev = 0xa0;\n\tlist->history[0xa0].next = 0x9f;'),
    dict(id='c04-pm1-tree12-leaf', props=['C04'], file='lib/pm1_decoder.c',
         old='{ 0xa1, 0x12, 0xb2, 0xde, 0xcf },    // (a ((b (c f)) (d e)))', new='{ 0xa1, 0x12, 0xb2, 0xde, 0xfc },    // (a ((b (c f)) (d e)))'),
]
MUTANTS += [
    # ---- C14 ----
    dict(id='c14-crc-over-outbuf', props=['C14'], file='lib/lha_decoder.c',
         old='\tlha_crc16_buf(&decoder->crc, buf, filled);', new='\tlha_crc16_buf(&decoder->crc, decoder->outbuf, filled < decoder->outbuf_len ? filled : decoder->outbuf_len);'),
    dict(id='c14-end-clamp-dropped', props=['C14'], file='lib/lha_decoder.c',
         old='\tif (decoder->stream_pos + buf_len > decoder->stream_length) {\n\t\tbuf_len = decoder->stream_length - decoder->stream_pos;\n\t}',
         new='\tif (decoder->stream_pos + buf_len > decoder->stream_length + 1) {\n\t\tbuf_len = decoder->stream_length - decoder->stream_pos;\n\t}'),
    dict(id='c14-progress-off-by-one', props=['C14'], file='lib/lha_decoder.c',
         old='\tblock = (decoder->stream_pos + decoder->dtype->block_size - 1)\n\t      / decoder->dtype->block_size;',
         new='\tblock = (decoder->stream_pos)\n\t      / decoder->dtype->block_size;'),
    dict(id='c14-outbuf-pos-lost-on-small-read', props=['C14'], file='lib/lha_decoder.c',
         old='\t\tdecoder->outbuf_pos += bytes;\n\t\tfilled += bytes;', new='\t\tdecoder->outbuf_pos += bytes + (bytes == 3 && buf_len == 3 && decoder->outbuf_len > 40);\n\t\tfilled += bytes;'),
    dict(id='c14-length-counts-requested', props=['C14'], file='lib/lha_decoder.c',
         old='\tdecoder->stream_pos += filled;', new='\tdecoder->stream_pos += decoder->decoder_failed ? buf_len : filled;'),
    dict(id='c14-monitor-late-attach-skips', props=['C14'], file='lib/lha_decoder.c',
         old='\tdecoder->total_blocks\n\t  = (decoder->stream_length + decoder->dtype->block_size - 1)\n\t  / decoder->dtype->block_size;\n',
         new='\tdecoder->total_blocks\n\t  = (decoder->stream_length + decoder->dtype->block_size - 1)\n\t  / decoder->dtype->block_size;\n\tif (decoder->stream_pos > 0) decoder->last_block = (decoder->stream_pos - 1) / decoder->dtype->block_size;\n'),
]
MUTANTS += [
    # ---- C09 ----
    dict(id='c09-f1-reverted', props=['C09'], file='lib/pm2_decoder.c',
         old='} else if (code - 15 < sizeof(copy_decode) / sizeof(*copy_decode)) {', new='} else if (1) {'),
    dict(id='c09-code-clamp-dropped', props=['C09'], file='lib/lh_new_decoder.c',
         old='\tif (n > NUM_CODES) {\n\t\tn = NUM_CODES;\n\t}', new=''),
    dict(id='c09-expand-queue-check-dropped', props=['C09'], file='lib/tree_decode.c',
         old='\tif (build->tree_allocated + new_nodes > build->tree_len) {\n\t\treturn;\n\t}', new=''),
    dict(id='c09-skip-run-overshoot', props=['C09'], file='lib/lh_new_decoder.c',
         old='for (j = 0; j < skip_count && i < n; ++j) {', new='for (j = 0; j < skip_count; ++j) {'),
    dict(id='c09-lz5-outbuf-small', props=['C09'], file='lib/lz5_decoder.c',
         old='#define OUTPUT_BUFFER_SIZE (15 + THRESHOLD) * 8', new='#define OUTPUT_BUFFER_SIZE (15 + THRESHOLD) * 7'),
    dict(id='c09-lk7-outbuf', props=['C09'], file='lib/lh_new_decoder.c',
         old='\t} else {\n\t\treturn 514;\n\t}', new='\t} else {\n\t\treturn 70000;\n\t}'),
]
MUTANTS += [
    dict(id='c09-pm1-ring-modulo', props=['C09'], file='lib/pm1_decoder.c',
         old='\t\tcopy_index = (copy_index + 1) % RING_BUFFER_SIZE;', new='\t\tcopy_index = (copy_index + 1);'),
    dict(id='c09-pm2-offset-tree-8-entries', props=['C09'], file='lib/pm2_decoder.c',
         old='\tuint8_t offset_lengths[8];', new='\tuint8_t offset_lengths[7];'),
    dict(id='c09-null-reads-1040', props=['C09'], file='lib/null_decoder.c',
         old='return decoder->callback(buf, BLOCK_READ_SIZE, decoder->callback_data);',
         new='return decoder->callback(buf, BLOCK_READ_SIZE + 16, decoder->callback_data);'),
]
MUTANTS += [
    # ---- C05 ----
    dict(id='c05-uid-gid-swapped', props=['C05'], file='lib/ext_header.c',
         old='\theader->unix_gid = lha_decode_uint16(data);\n\theader->unix_uid = lha_decode_uint16(data + 2);',
         new='\theader->unix_uid = lha_decode_uint16(data);\n\theader->unix_gid = lha_decode_uint16(data + 2);'),
    dict(id='c05-l1-size-not-reduced', props=['C05'], file='lib/lha_file_header.c',
         old='\t\t(*header)->compressed_length -= ext_header_len;', new='\t\t(*header)->compressed_length -= 0;'),
    dict(id='c05-allcaps-for-unix', props=['C05'], file='lib/lha_file_header.c',
         old='\t || header->os_type == LHA_OS_TYPE_OS2) {\n\t\tfix_msdos_allcaps(header);', new='\t || header->os_type == LHA_OS_TYPE_OS2 || header->os_type == LHA_OS_TYPE_UNIX) {\n\t\tfix_msdos_allcaps(header);'),
    dict(id='c05-os9-perm-bit', props=['C05'], file='lib/lha_file_header.c',
         old='\tpw = (header->os9_perms & 0x10) != 0;', new='\tpw = (header->os9_perms & 0x20) != 0;'),
    dict(id='c05-l0-unix-area-perms-offset', props=['C05'], file='lib/lha_file_header.c',
         old='\theader->unix_perms = lha_decode_uint16(data + data_len - 6);', new='\theader->unix_perms = lha_decode_uint16(data + 6);'),
    dict(id='c05-dos-month', props=['C05'], file='lib/lha_file_header.c',
         old='\tdatetime.tm_mon = ((raw >> 21) & 0xf) - 1;', new='\tdatetime.tm_mon = ((raw >> 21) & 0xf);'),
    dict(id='c05-win-time-order', props=['C05'], file='lib/ext_header.c',
         old='\theader->win_modification_time = lha_decode_uint64(data + 8);\n\theader->win_access_time = lha_decode_uint64(data + 16);',
         new='\theader->win_access_time = lha_decode_uint64(data + 8);\n\theader->win_modification_time = lha_decode_uint64(data + 16);'),
    dict(id='c05-osk-quirk-dropped', props=['C05'], file='lib/lha_file_header.c',
         old='\tif ((*header)->os_type == LHA_OS_TYPE_OS9_68K) {\n\t\tif (!extend_raw_data(header, stream, 2)) {', new='\tif ((*header)->os_type == 0x7e) {\n\t\tif (!extend_raw_data(header, stream, 2)) {'),
    dict(id='c05-path-ext-last-wins-dropped', props=['C05'], file='lib/ext_header.c',
         old='\tfree(header->path);\n\theader->path = (char *) new_path;', new='\tif (header->path != NULL) { free(new_path); return 1; }\n\theader->path = (char *) new_path;'),
    dict(id='c05-lhark-rename-any-level', props=['C05'], file='lib/lha_file_header.c',
         old='\tif (header->header_level == 1 && header->os_type == LHA_OS_TYPE_LHARK', new='\tif (header->header_level >= 1 && header->os_type == LHA_OS_TYPE_LHARK'),
    dict(id='c05-symlink-split-first-bar', props=['C05'], file='lib/lha_file_header.c',
         old="\tp = strchr(fullpath, '|');", new="\tp = strrchr(fullpath, '|');"),
]
MUTANTS += [
    # ---- C11 ----
    dict(id='c11-dotdot-at-start-kept', props=['C11'], file='lib/lha_file_header.c',
         old='\t\t\t\tif (currpath == filename) {\n\t\t\t\t\tw = filename;\n\t\t\t\t} else {', new='\t\t\t\tif (currpath == filename) {\n\t\t\t\t\tcurrpath = w;\n\t\t\t\t} else {'),
    dict(id='c11-ext-filename-slash-kept', props=['C11'], file='lib/ext_header.c',
         old="\t\tif (new_filename[i] == '/') {\n\t\t\tnew_filename[i] = '_';\n\t\t}", new="\t\tif (new_filename[i] == '/' && i == 0) {\n\t\t\tnew_filename[i] = '_';\n\t\t}"),
    dict(id='c11-collapse-skipped-for-symlinks', props=['C11'], file='lib/lha_file_header.c',
         old='\tif (header->path != NULL) {\n\t\tcollapse_path(header->path);\n\t}', new='\tif (header->path != NULL && header->symlink_target == NULL) {\n\t\tcollapse_path(header->path);\n\t}'),
    dict(id='c11-collapse-single-dot-kept', props=['C11'], file='lib/lha_file_header.c',
         old="\t\t\t || (currpath_len == 1 && currpath[0] == '.')) {", new="\t\t\t || (currpath_len == 1 && currpath[0] == '.' && currpath != filename)) {"),
    dict(id='c11-dotdot-walkback-too-far', props=['C05'], file='lib/lha_file_header.c',
         old="\t\t\t\t\twhile (w > filename) {\n\t\t\t\t\t\tif (*(w - 1) == '/') {", new="\t\t\t\t\twhile (w > filename + 1) {\n\t\t\t\t\t\tif (*(w - 1) == '/') {"),
    dict(id='c11-symlink-resplit-dropped', props=['C11'], file='lib/lha_file_header.c',
         old='\treturn split_header_filename(header);\n}\n\n// Decode the path field in the header.', new='\treturn 1;\n}\n\n// Decode the path field in the header.'),
]
MUTANTS += [
    # ---- C12 ----
    dict(id='c12-checksum-test-dropped', props=['C12'], file='lib/lha_file_header.c',
         old='\treturn (result & 0xff) == csum;', new='\treturn (result & 0x7f) == (csum & 0x7f);'),
    dict(id='c12-common-crc-test-dropped', props=['C12'], file='lib/lha_file_header.c',
         old='\tif (LHA_FILE_HAVE_EXTRA(header, LHA_FILE_COMMON_CRC)\n\t && !check_common_crc(header)) {', new='\tif (LHA_FILE_HAVE_EXTRA(header, LHA_FILE_COMMON_CRC)\n\t && header->header_level == 3 && !check_common_crc(header)) {'),
    dict(id='c12-ext-min-size', props=['C12', 'C08'], file='lib/lha_file_header.c',
         old='\t\t} else if (ext_header_len < field_size + 1\n', new='\t\t} else if (ext_header_len < field_size\n'),
    dict(id='c12-l1-packed-covers', props=['C12'], file='lib/lha_file_header.c',
         old='\t\tif ((*header)->compressed_length < ext_header_len) {\n\t\t\treturn 0;\n\t\t}', new=''),
    dict(id='c12-dir-without-path', props=['C12'], file='lib/lha_file_header.c',
         old='\t} else {\n\t\tif (header->path == NULL) {\n\t\t\tgoto fail;\n\t\t}\n\t}', new='\t} else {\n\t\tif (header->path == NULL && header->header_level < 2) {\n\t\t\tgoto fail;\n\t\t}\n\t}'),
    dict(id='c12-name-len-overrun', props=['C12', 'C08'], file='lib/lha_file_header.c',
         old='\tif (min_len + path_len > header_len) {', new='\tif (min_len + path_len > header_len + 1U) {'),
    dict(id='c12-ccrc-second-header-only', props=['C12'], file='lib/ext_header.c',
         old='\theader->extra_flags |= LHA_FILE_COMMON_CRC;\n\theader->common_crc = lha_decode_uint16(data);',
         new='\tif (data_len > 2) header->extra_flags |= LHA_FILE_COMMON_CRC;\n\theader->common_crc = lha_decode_uint16(data);'),
]
MUTANTS += [
    dict(id='c12-iteration-continues-both-layers', props=['C12'], edits=[
        ('lib/lha_basic_reader.c', '\tif (reader->curr_file == NULL) {\n\t\treader->eof = 1;\n\t\treturn NULL;\n\t}', '\tif (reader->curr_file == NULL) {\n\t\treturn NULL;\n\t}'),
        ('lib/lha_reader.c', '\tif (reader->curr_file_type == CURR_FILE_EOF) {\n\t\treturn NULL;\n\t}', '\tif (reader->curr_file_type == CURR_FILE_EOF) {\n\t\treader->curr_file_type = CURR_FILE_START;\n\t}')]),
]
MUTANTS += [
    # ---- C07 ----
    dict(id='c07-crc-compare-dropped', props=['C07'], file='lib/lha_reader.c',
         old='\t    && lha_decoder_get_crc(reader->inner_decoder)\n\t         == reader->curr_file->crc;', new='\t    && (lha_decoder_get_crc(reader->inner_decoder) & 0xff)\n\t         == (reader->curr_file->crc & 0xff);'),
    dict(id='c07-length-compare-dropped', props=['C07'], file='lib/lha_reader.c',
         old='\treturn lha_decoder_get_length(reader->inner_decoder)\n\t         == reader->curr_file->length\n\t    &&', new='\treturn lha_decoder_get_length(reader->inner_decoder)\n\t         <= reader->curr_file->length\n\t    &&'),
    dict(id='c07-main-returns-0', props=['C07'], file='src/main.c',
         old='\t\treturn !do_command(mode, argv[2], &options,\n\t\t                   argv + 3, argc - 3);', new='\t\tdo_command(mode, argv[2], &options,\n\t\t                   argv + 3, argc - 3);\n\t\treturn 0;'),
    dict(id='c07-test-result-last-only', props=['C07'], file='src/extract.c',
         old='\t\tif (!test_archived_file_crc(filter->reader, header, options)) {\n\t\t\tresult = 0;\n\t\t}', new='\t\tresult = test_archived_file_crc(filter->reader, header, options);'),
    dict(id='c07-tested-line-always', props=['C07'], file='src/extract.c',
         old='\t\tif (success) {\n\t\t\tprint_filename(filename, "Tested");', new='\t\tif (success || header->length == 0) {\n\t\t\tprint_filename(filename, "Tested");'),
    dict(id='c07-extract-result-ignores-write', props=['C07'], file='lib/lha_reader.c',
         old='\t\t\tresult = do_decode(reader, fstream);', new='\t\t\tresult = do_decode(reader, fstream) || reader->curr_file->length == 1;'),
    dict(id='c07-check-empty-file-shortcut', props=['C07'], file='lib/lha_reader.c',
         old='\t// Decode file.\n\n\treturn open_decoder(reader, callback, callback_data)', new='\t// Decode file.\n\n\tif (reader->curr_file->compressed_length == 0) return 1;\n\treturn open_decoder(reader, callback, callback_data)'),
]
MUTANTS += [
    # ---- C15 ----
    dict(id='c15-remainder-skip-dropped', props=['C15'], file='lib/lha_basic_reader.c',
         old='\t\tif (!lha_input_stream_skip(reader->stream,\n\t\t                           reader->curr_file_remaining)) {\n\t\t\treader->eof = 1;\n\t\t}',
         new='\t\tif (reader->curr_file_remaining > 3 && !lha_input_stream_skip(reader->stream,\n\t\t                           reader->curr_file_remaining)) {\n\t\t\treader->eof = 1;\n\t\t}'),
    dict(id='c15-fake-dir-twice', props=['C15'], file='lib/lha_reader.c',
         old='\t\treader->curr_file = reader->dir_stack;\n\t\treader->dir_stack = reader->dir_stack->_next;\n\t\treader->curr_file_type = CURR_FILE_FAKE_DIR;',
         new='\t\treader->curr_file = reader->dir_stack;\n\t\tif (reader->curr_file_type == CURR_FILE_FAKE_DIR || reader->dir_stack->_next != NULL) reader->dir_stack = reader->dir_stack->_next;\n\t\telse lha_file_header_add_ref(reader->curr_file);\n\t\treader->curr_file_type = CURR_FILE_FAKE_DIR;'),
    dict(id='c15-static-scratch-in-lz5', props=['C15'], file='lib/lz5_decoder.c',
         old='\tLHALZ5Decoder *decoder = data;\n\tuint8_t bitmap;\n\tunsigned int bit;\n\tsize_t result;',
         new='\tLHALZ5Decoder *decoder = data;\n\tstatic uint8_t bitmap;\n\tstatic unsigned int bit;\n\tsize_t result;'),
    dict(id='c15-deferred-order-reversed', props=['C15', 'C10'], file='lib/lha_reader.c',
         old='\t     > file_header_path_len(reader->curr_file)) {', new='\t     < file_header_path_len(reader->curr_file)) {'),
    dict(id='c15-eod-prefix-compare-len', props=['C15'], file='lib/lha_reader.c',
         old='\t\t\t               strlen(reader->dir_stack->path)) != 0;', new='\t\t\t               strlen(reader->dir_stack->path) - 1) != 0;'),
    dict(id='c15-eof-policy-pops-early', props=['C15'], file='lib/lha_reader.c',
         old='\t\tcase LHA_READER_DIR_END_OF_FILE:\n\t\t\treturn 0;', new='\t\tcase LHA_READER_DIR_END_OF_FILE:\n\t\t\treturn input->path == NULL;'),
    dict(id='c15-shared-global-in-reader', props=['C15'], file='lib/lha_reader.c',
         old='static int do_decode(LHAReader *reader, FILE *output)\n{\n\tuint8_t buf[64];\n\tunsigned int bytes;',
         new='static unsigned int bytes;\nstatic int do_decode(LHAReader *reader, FILE *output)\n{\n\tuint8_t buf[64];'),
    dict(id='c15-read-after-partial-restarts', props=['C15'], file='lib/lha_reader.c',
         old='\tif (reader->decoder == NULL) {\n\t\tif (!open_decoder(reader, NULL, NULL)) {\n\t\t\treturn 0;\n\t\t}\n\t}\n\n\t// Read from decoder and return the result.',
         new='\tif (reader->decoder == NULL || (buf_len == 5 && lha_decoder_get_length(reader->decoder) == 5)) {\n\t\tif (!open_decoder(reader, NULL, NULL)) {\n\t\t\treturn 0;\n\t\t}\n\t}\n\n\t// Read from decoder and return the result.'),
]
MUTANTS += [
    # ---- C16 ----
    dict(id='c16-skip-files-not-decremented', props=['C16'], file='lib/lha_input_stream.c',
         old='\t\t\t\t} else {\n\t\t\t\t\t--skip_files;\n\t\t\t\t}', new='\t\t\t\t} else {\n\t\t\t\t\tskip_files = (i == 11) ? skip_files : skip_files - 1;\n\t\t\t\t}'),
    dict(id='c16-sfx-limit-64k', props=['C16'], file='lib/lha_input_stream.c',
         old='#define MAX_SFX_HEADER_LEN (256 * 1024)', new='#define MAX_SFX_HEADER_LEN (250 * 1024)'),
    dict(id='c16-pipe-skip-short', props=['C16'], file='lib/lha_input_stream.c',
         old='\t\tresult = fread(data, 1, len, handle);\n\n\t\tif (result != (int) len) {\n\t\t\treturn 0;\n\t\t}\n\n\t\tbytes -= len;',
         new='\t\tresult = fread(data, 1, len, handle);\n\n\t\tif (result != (int) len) {\n\t\t\treturn 0;\n\t\t}\n\n\t\tbytes -= len; if (bytes == 1) bytes = 0;'),
    dict(id='c16-leadin-lost-on-small-read', props=['C16'], file='lib/lha_input_stream.c',
         old='\t\tmemcpy(buf, stream->leadin, n);\n\t\tempty_leadin(stream, n);', new='\t\tmemcpy(buf, stream->leadin, n);\n\t\tempty_leadin(stream, n == 22 && stream->leadin_len == 23 ? 23 : n);'),
    dict(id='c16-marker-amiga-ignored', props=['C16'], file='lib/lha_input_stream.c',
         old='#define AMIGA_LHASFX_ID "LhASFX V1.2,"  /* Amiga LhASFX */', new='#define AMIGA_LHASFX_ID "LhASFX V1.3,"  /* Amiga LhASFX */'),
    dict(id='c16-cb-skip-off-by-one-at-end', props=['C16', 'C15'], file='lib/lha_input_stream.c',
         old='\t\t\tresult = do_read(stream, data, len);\n\n\t\t\tif (result < 0) {\n\t\t\t\treturn 0;\n\t\t\t}\n\n\t\t\tbytes -= (unsigned int) result;',
         new='\t\t\tresult = do_read(stream, data, len);\n\n\t\t\tif (result < 0) {\n\t\t\t\treturn 0;\n\t\t\t}\n\n\t\t\tbytes -= (unsigned int) result; if (bytes == 31) { bytes = 0; }'),
    dict(id='c16-seek-skip-32bit', props=['C16'], file='lib/lha_input_stream.c',
         old='\tresult = fseek(handle, (long) bytes, SEEK_CUR);', new='\tresult = fseek(handle, (long) (bytes & 0x3ff), SEEK_CUR);'),
]
MUTANTS += [
    # ---- C13 ----
    dict(id='c13-f2-reverted', props=['C13'], file='lib/lha_input_stream.c',
         old='\t\t\tif (result <= 0) {\n\t\t\t\treturn 0;\n\t\t\t}', new='\t\t\tif (result < 0) {\n\t\t\t\treturn 0;\n\t\t\t}'),
    dict(id='c13-extend-ceiling-dropped', props=['C13'], edits=[
        ('lib/lha_file_header.c', '\tif (nbytes > LEVEL_3_MAX_HEADER_LEN) {\n\t\treturn NULL;\n\t}', ''),
        ('lib/lha_file_header.c', '\tif (header_len > LEVEL_3_MAX_HEADER_LEN\n\t || header_len < RAW_DATA_LEN(header)) {', '\tif (header_len < RAW_DATA_LEN(header)) {')]),
    dict(id='c13-pm1-ignores-declared-length', props=['C13', 'C14'], file='lib/lha_decoder.c',
         old='\tif (decoder->stream_pos + buf_len > decoder->stream_length) {', new='\tif (decoder->stream_pos + buf_len > decoder->stream_length && decoder->dtype->max_read != 460) {'),
    dict(id='c13-skip-fallback-file-loops', props=['C13'], file='lib/lha_input_stream.c',
         old='\t\tif (result != (int) len) {\n\t\t\treturn 0;\n\t\t}', new='\t\tif (result < 0) {\n\t\t\treturn 0;\n\t\t}\n\t\tlen = result;'),
]
