"""Check context: seeds, tiers, violation reporting through known_findings, evidence."""
import os, sys, json, time, hashlib, re, random, traceback

VERIF = os.path.dirname(os.path.dirname(os.path.abspath(__file__)))
KNOWN_FILE = os.path.join(VERIF, 'known_findings.txt')

LEVELS = {}


class HarnessFailure(Exception):
    """The machinery (not lhasa) failed: exit 2, never a verdict."""


def load_known():
    """finding: property=<id> key=<key> <text>   (suppresses exactly that key)
       fixed:   property=<id> <commit> <text>     (suppresses nothing)"""
    out = {}
    if not os.path.exists(KNOWN_FILE):
        return out
    for line in open(KNOWN_FILE):
        line = line.strip()
        if not line or line.startswith('#'):
            continue
        m = re.match(r'finding:\s+property=(\S+)\s+key=(\S+)\s+(.*)$', line)
        if m:
            out[(m.group(1), m.group(2))] = m.group(3)
    return out


class Ctx:
    def __init__(self, pid, tier, seed, level='exploration'):
        self.pid, self.tier, self.seed, self.level = pid, tier, seed, level
        self.t0 = time.time()
        self.known = load_known()
        self.known_hit = {}
        self.violations = {}
        self.inconclusive = []
        self.cov = {'evaluations': 0, 'distinct_nontrivial': 0, 'rule': '', 'samples': []}
        self.assumptions = []
        self._distinct = set()
        self.replay_dir = os.path.join(os.environ.get('VERIF_REPLAY_DIR') or os.path.join(VERIF, 'replay'), pid)
        self.rng = random.Random(seed)

    # ---- coverage accounting -------------------------------------------------------
    def count(self, key, n=1):
        self.cov[key] = self.cov.get(key, 0) + n

    def hist(self, name, bucket, n=1):
        h = self.cov.setdefault(name, {})
        h[str(bucket)] = h.get(str(bucket), 0) + n

    def evaluated(self, content_key=None, nontrivial=False, n=1):
        """One case executed.  content_key: bytes/str identifying the case; counted in
        distinct_nontrivial only if nontrivial and not seen before."""
        self.cov['evaluations'] += n
        if nontrivial and content_key is not None:
            if isinstance(content_key, str):
                content_key = content_key.encode()
            h = hashlib.blake2b(content_key, digest_size=8).digest()
            if h not in self._distinct:
                self._distinct.add(h)
                self.cov['distinct_nontrivial'] += 1

    def merge_distinct(self, hashes):
        for h in hashes:
            if h not in self._distinct:
                self._distinct.add(h)
                self.cov['distinct_nontrivial'] += 1

    def sample(self, obj, limit=6):
        if len(self.cov['samples']) < limit:
            self.cov['samples'].append(obj)

    # ---- verdicts ------------------------------------------------------------------
    def violation(self, key, what, replay=None, ext='bin'):
        """Route every violation through the known-findings matcher."""
        key = re.sub(r'\s+', '_', key)
        if (self.pid, key) in self.known:
            if key not in self.known_hit:
                self.known_hit[key] = what
                print('KNOWN-FINDING: property=%s key=%s %s' % (self.pid, key, self.known[(self.pid, key)]))
                sys.stdout.flush()
            return False
        if key in self.violations:
            self.violations[key]['count'] += 1
            return True
        os.makedirs(self.replay_dir, exist_ok=True)
        safe = re.sub(r'[^A-Za-z0-9_.-]', '_', key)[:100]
        path = os.path.join(self.replay_dir, '%s.%s' % (safe, ext))
        try:
            if replay is None:
                replay = what
            if isinstance(replay, (bytes, bytearray)):
                open(path, 'wb').write(replay)
            elif isinstance(replay, str):
                open(path, 'w').write(replay)
            else:
                path = path[:-len(ext)] + 'json'
                json.dump(replay, open(path, 'w'), indent=1, default=_js)
        except Exception as e:  # never lose the verdict because a witness could not be written
            path = path + '.unwritable'
        self.violations[key] = {'what': what[:2000], 'replay': path, 'count': 1}
        print('VIOLATION property=%s replay=%s' % (self.pid, path))
        print('  key=%s %s' % (key, what[:600]))
        sys.stdout.flush()
        return True

    def inconc(self, what):
        self.inconclusive.append(what[:500])
        print('INCONCLUSIVE property=%s %s' % (self.pid, what[:300]))

    # ---- evidence ------------------------------------------------------------------
    def write_evidence(self):
        ev = {
            'property_id': self.pid, 'tier': self.tier, 'seed': self.seed, 'level': self.level,
            'coverage': self.cov, 'assumptions': self.assumptions,
            'wall_s': round(time.time() - self.t0, 2),
            'violations': len(self.violations),
        }
        ev['coverage']['known_findings_reproduced'] = sorted(self.known_hit)
        ev['coverage']['inconclusive'] = self.inconclusive
        ev['coverage']['violation_keys'] = sorted(self.violations)
        d = os.environ.get('VERIF_EVIDENCE_DIR') or os.path.join(VERIF, 'evidence')
        os.makedirs(d, exist_ok=True)
        tmp = os.path.join(d, '.%s.json.tmp' % self.pid)
        json.dump(ev, open(tmp, 'w'), indent=1, default=_js)
        os.replace(tmp, os.path.join(d, '%s.json' % self.pid))

    def finish(self):
        if self.cov['evaluations'] == 0:
            raise HarnessFailure('run observed nothing')
        self.write_evidence()
        print('%s tier=%s seed=%d evaluations=%d distinct_nontrivial=%d violations=%d known=%d wall=%.1fs' % (
            self.pid, self.tier, self.seed, self.cov['evaluations'], self.cov['distinct_nontrivial'],
            len(self.violations), len(self.known_hit), time.time() - self.t0))
        return 1 if self.violations else 0


def _js(o):
    if isinstance(o, (bytes, bytearray)):
        return o.hex()
    if isinstance(o, set):
        return sorted(o)
    return str(o)


def hx(b, n=48):
    if b is None:
        return None
    return bytes(b[:n]).hex() + ('..(%d)' % len(b) if len(b) > n else '')


class Shard:
    """Per-worker accumulator with the same counting interface as Ctx; merged by the parent."""
    def __init__(self):
        self.cov = {}
        self.evals = 0
        self.hashes = set()
        self.viol = []
        self.samples = []
        self.inconcl = []

    def count(self, key, n=1):
        self.cov[key] = self.cov.get(key, 0) + n

    def hist(self, name, bucket, n=1):
        h = self.cov.setdefault(name, {})
        h[str(bucket)] = h.get(str(bucket), 0) + n

    def evaluated(self, content_key=None, nontrivial=False, n=1):
        self.evals += n
        if nontrivial and content_key is not None:
            if isinstance(content_key, str):
                content_key = content_key.encode()
            self.hashes.add(hashlib.blake2b(content_key, digest_size=8).digest())

    def violation(self, key, what, replay=None, ext='bin'):
        if len(self.viol) < 50:
            self.viol.append((key, what, replay, ext))

    def sample(self, obj, limit=3):
        if len(self.samples) < limit:
            self.samples.append(obj)

    def inconc(self, what):
        self.inconcl.append(what)


def merge_shard(ctx, sh):
    ctx.cov['evaluations'] += sh.evals
    ctx.merge_distinct(sh.hashes)
    for k, v in sh.cov.items():
        if isinstance(v, dict):
            h = ctx.cov.setdefault(k, {})
            for b, n in v.items():
                h[b] = h.get(b, 0) + n
        elif k.startswith('hook_max_index_') or k.startswith('max_'):
            ctx.cov[k] = max(ctx.cov.get(k, 0), v)
        else:
            ctx.cov[k] = ctx.cov.get(k, 0) + v
    for key, what, replay, ext in sh.viol:
        ctx.violation(key, what, replay, ext)
    for s in sh.samples:
        ctx.sample(s)
    for w in sh.inconcl:
        ctx.inconc(w)


def _shard_entry(args):
    fn, a = args
    try:
        return ('ok', fn(*a))
    except HarnessFailure as e:
        return ('harness', str(e))
    except Exception:
        return ('harness', traceback.format_exc())


def run_shards(ctx, fn, arglist, nproc=16):
    """fn(*args) -> Shard, each executed in a forked child of the (single-threaded) main thread;
    results come back as pickle files in the scratch directory and are merged here.
    (multiprocessing.Pool is avoided on purpose: its helper threads fork replacement workers
    while the main thread may hold the stdout lock, which deadlocked a child in testing.)"""
    import pickle
    from . import build
    if not arglist:
        return
    d = os.path.join(build.scratch_root(), 'shards.%d' % os.getpid())
    os.makedirs(d, exist_ok=True)
    pending = list(enumerate(arglist))
    running = {}
    failed = None

    def reap(block):
        nonlocal failed
        try:
            pid, st = os.waitpid(-1, 0 if block else os.WNOHANG)
        except ChildProcessError:
            return False
        if pid == 0:
            return False
        if pid not in running:
            return True
        idx = running.pop(pid)
        f = os.path.join(d, '%d.pkl' % idx)
        if st != 0 or not os.path.exists(f):
            failed = failed or 'shard %d exited with status %d and no result' % (idx, st)
            return True
        status, val = pickle.load(open(f, 'rb'))
        os.unlink(f)
        if status != 'ok':
            failed = failed or val[-1500:]
        else:
            merge_shard(ctx, val)
        return True

    while (pending or running) and not failed:
        while pending and len(running) < nproc and not failed:
            idx, a = pending.pop(0)
            sys.stdout.flush()
            sys.stderr.flush()
            pid = os.fork()
            if pid == 0:
                rc = 0
                try:
                    res = _shard_entry((fn, a))
                    tmp = os.path.join(d, '%d.tmp' % idx)
                    pickle.dump(res, open(tmp, 'wb'))
                    os.rename(tmp, os.path.join(d, '%d.pkl' % idx))
                except BaseException:
                    traceback.print_exc()
                    rc = 3
                finally:
                    sys.stdout.flush()
                    sys.stderr.flush()
                    os._exit(rc)
            running[pid] = idx
        if running:
            reap(True)
    for pid in list(running):
        try:
            os.kill(pid, 9)
            os.waitpid(pid, 0)
        except OSError:
            pass
    if failed:
        raise HarnessFailure('worker failed: ' + failed)
