"""Check context: seeds, tiers, violation reporting through known_findings, evidence."""
import os, sys, json, time, hashlib, re, random, traceback

VERIF = os.path.dirname(os.path.dirname(os.path.abspath(__file__)))
KNOWN_FILE = os.path.join(VERIF, 'known_findings.txt')

LEVELS = {}


class HarnessFailure(Exception):
    """The machinery (not lhasa) failed: exit 2, never a verdict."""


def load_known():
    """finding: property=<id> key=<key> <text>   (suppresses exactly that key)
       fixed:   property=<id> <commit> <text>     (suppresses nothing)"""
    out = {}
    if not os.path.exists(KNOWN_FILE):
        return out
    for line in open(KNOWN_FILE):
        line = line.strip()
        if not line or line.startswith('#'):
            continue
        m = re.match(r'finding:\s+property=(\S+)\s+key=(\S+)\s+(.*)$', line)
        if m:
            out[(m.group(1), m.group(2))] = m.group(3)
    return out


class Ctx:
    def __init__(self, pid, tier, seed, level='exploration'):
        self.pid, self.tier, self.seed, self.level = pid, tier, seed, level
        self.t0 = time.time()
        self.known = load_known()
        self.known_hit = {}
        self.violations = {}
        self.inconclusive = []
        self.cov = {'evaluations': 0, 'distinct_nontrivial': 0, 'rule': '', 'samples': []}
        self.assumptions = []
        self._distinct = set()
        self.replay_dir = os.path.join(VERIF, 'replay', pid)
        self.rng = random.Random(seed)

    # ---- coverage accounting -------------------------------------------------------
    def count(self, key, n=1):
        self.cov[key] = self.cov.get(key, 0) + n

    def hist(self, name, bucket, n=1):
        h = self.cov.setdefault(name, {})
        h[str(bucket)] = h.get(str(bucket), 0) + n

    def evaluated(self, content_key=None, nontrivial=False, n=1):
        """One case executed.  content_key: bytes/str identifying the case; counted in
        distinct_nontrivial only if nontrivial and not seen before."""
        self.cov['evaluations'] += n
        if nontrivial and content_key is not None:
            if isinstance(content_key, str):
                content_key = content_key.encode()
            h = hashlib.blake2b(content_key, digest_size=8).digest()
            if h not in self._distinct:
                self._distinct.add(h)
                self.cov['distinct_nontrivial'] += 1

    def merge_distinct(self, hashes):
        for h in hashes:
            if h not in self._distinct:
                self._distinct.add(h)
                self.cov['distinct_nontrivial'] += 1

    def sample(self, obj, limit=6):
        if len(self.cov['samples']) < limit:
            self.cov['samples'].append(obj)

    # ---- verdicts ------------------------------------------------------------------
    def violation(self, key, what, replay=None, ext='bin'):
        """Route every violation through the known-findings matcher."""
        key = re.sub(r'\s+', '_', key)
        if (self.pid, key) in self.known:
            if key not in self.known_hit:
                self.known_hit[key] = what
                print('KNOWN-FINDING: property=%s key=%s %s' % (self.pid, key, self.known[(self.pid, key)]))
                sys.stdout.flush()
            return False
        if key in self.violations:
            self.violations[key]['count'] += 1
            return True
        os.makedirs(self.replay_dir, exist_ok=True)
        safe = re.sub(r'[^A-Za-z0-9_.-]', '_', key)[:100]
        path = os.path.join(self.replay_dir, '%s.%s' % (safe, ext))
        try:
            if replay is None:
                replay = what
            if isinstance(replay, (bytes, bytearray)):
                open(path, 'wb').write(replay)
            elif isinstance(replay, str):
                open(path, 'w').write(replay)
            else:
                path = path[:-len(ext)] + 'json'
                json.dump(replay, open(path, 'w'), indent=1, default=_js)
        except Exception as e:  # never lose the verdict because a witness could not be written
            path = path + '.unwritable'
        self.violations[key] = {'what': what[:2000], 'replay': path, 'count': 1}
        print('VIOLATION property=%s replay=%s' % (self.pid, path))
        print('  key=%s %s' % (key, what[:600]))
        sys.stdout.flush()
        return True

    def inconc(self, what):
        self.inconclusive.append(what[:500])
        print('INCONCLUSIVE property=%s %s' % (self.pid, what[:300]))

    # ---- evidence ------------------------------------------------------------------
    def write_evidence(self):
        ev = {
            'property_id': self.pid, 'tier': self.tier, 'seed': self.seed, 'level': self.level,
            'coverage': self.cov, 'assumptions': self.assumptions,
            'wall_s': round(time.time() - self.t0, 2),
            'violations': len(self.violations),
        }
        ev['coverage']['known_findings_reproduced'] = sorted(self.known_hit)
        ev['coverage']['inconclusive'] = self.inconclusive
        ev['coverage']['violation_keys'] = sorted(self.violations)
        d = os.path.join(VERIF, 'evidence')
        os.makedirs(d, exist_ok=True)
        tmp = os.path.join(d, '.%s.json.tmp' % self.pid)
        json.dump(ev, open(tmp, 'w'), indent=1, default=_js)
        os.replace(tmp, os.path.join(d, '%s.json' % self.pid))

    def finish(self):
        if self.cov['evaluations'] == 0:
            raise HarnessFailure('run observed nothing')
        self.write_evidence()
        print('%s tier=%s seed=%d evaluations=%d distinct_nontrivial=%d violations=%d known=%d wall=%.1fs' % (
            self.pid, self.tier, self.seed, self.cov['evaluations'], self.cov['distinct_nontrivial'],
            len(self.violations), len(self.known_hit), time.time() - self.t0))
        return 1 if self.violations else 0


def _js(o):
    if isinstance(o, (bytes, bytearray)):
        return o.hex()
    if isinstance(o, set):
        return sorted(o)
    return str(o)


def hx(b, n=48):
    if b is None:
        return None
    return bytes(b[:n]).hex() + ('..(%d)' % len(b) if len(b) > n else '')
