"""C05 - every well-formed level 0-3 header is returned with exactly its encoded fields.
Events: all fields of the LHAFileHeader returned by lha_reader_next_file, the first bytes from lha_reader_read,
and the header of a sentinel member that follows (so that a wrong header *length* shows up).
Oracle: header.normalise(fields), under TZ=UTC (arithmetic mktime model) and TZ=Europe/London (libc mktime)."""
import os, random, time, itertools
from .. import build, core, rdh
from ..lhamodel import header as H
from ..lhamodel.crc16 import crc16

LEVEL = 'exploration'
_EXE = None
NAMECH = [b'a', b'B', b'.', b'/', b'\\', b'\xff', b'|', b'Z', b'\x80', b' ', b'..', b'x', b'\x01', b'\x7f', b'9']
OSLIST = list(b'MUAmaK9 2wWJCFRT3H\0xq')
EXT_TYPES = [0, 1, 2, 0x41, 0x50, 0x51, 0x52, 0x53, 0x54, 0xcc]
FIELDS = ['level', 'path', 'filename', 'symlink', 'method', 'packed', 'size', 'os', 'crc', 'time', 'flags', 'perms', 'uid',
          'gid', 'os9', 'user', 'group', 'win']


def rname(rnd, n=None):
    n = rnd.randrange(1, 9) if n is None else n
    return b''.join(rnd.choice(NAMECH) for _ in range(n))


def ext_data(rnd, t, isdir=False):
    if t == 0:
        return H.u16(0) + bytes(rnd.randrange(256) for _ in range(rnd.randrange(3)))
    if t == 1:
        return rname(rnd)
    if t == 2:
        return rname(rnd) + (b'\xff' if rnd.random() < 0.7 else b'')
    if t == 0x41:
        return bytes(rnd.choice([0, 0xff, rnd.randrange(256)]) for _ in range(24))
    if t == 0x50:
        return H.u16(rnd.choice([0, 0o777, 0o100644, 0o40755, 0xffff, rnd.randrange(65536)]))
    if t == 0x51:
        return H.u16(rnd.choice([0, 65535, rnd.randrange(65536)])) + H.u16(rnd.choice([0, 65535, rnd.randrange(65536)]))
    if t in (0x52, 0x53):
        return rname(rnd)
    if t == 0x54:
        return H.u32(rnd.choice([0, 1, 2 ** 31, 2 ** 32 - 1, rnd.randrange(2 ** 32)]))
    if t == 0xcc:
        return bytes(rnd.randrange(256) for _ in range(12))
    return bytes(rnd.randrange(256) for _ in range(rnd.randrange(5)))


def gen(rnd, lvl=None, exts_fixed=None, os9_perm=None):
    lvl = rnd.randrange(4) if lvl is None else lvl
    isdir = rnd.random() < 0.25
    sym = isdir and rnd.random() < 0.4
    m = dict(level=lvl, method=b'-lhd-' if isdir else rnd.choice([b'-lh0-', b'-lh5-', b'-lz4-', b'-pm0-', b'-lh7-', b'-lh1-', b'-lzs-']),
             size=rnd.choice([0, 1, 8, 2 ** 31, 2 ** 32 - 1, rnd.randrange(2 ** 32)]), crc=rnd.choice([0, 0xffff, rnd.randrange(65536)]),
             os=rnd.choice(OSLIST), data=b'' if isdir else bytes(rnd.randrange(256) for _ in range(rnd.randrange(0, 12))))
    m['dostime'] = rnd.choice([0, H.dos_time(rnd.randrange(128), rnd.randrange(16), rnd.randrange(32), rnd.randrange(32),
                                              rnd.randrange(64), rnd.randrange(32)),
                               H.dos_time(0, 0, 0, 0, 0, 1), H.dos_time(127, 15, 31, 31, 63, 31), 0xffffffff,
                               H.dos_time(rnd.randrange(58), rnd.randrange(1, 13), rnd.randrange(1, 29), rnd.randrange(24), rnd.randrange(60), rnd.randrange(30))])
    m['time'] = rnd.choice([0, 1, 2 ** 31, 2 ** 32 - 1, rnd.randrange(2 ** 32)])
    exts = []
    if lvl in (0, 1):
        m['name'] = rname(rnd) if rnd.random() < 0.85 else b''
        if rnd.random() < 0.05:
            room = 255 - (22 if lvl == 0 else 25)
            m['name'] = rname(rnd, 1) * 0 + bytes(rnd.choice(b'abX/\\.') for _ in range(room))   # maximum name length
        if isdir and rnd.random() < 0.7:
            m['name'] += b'\\'
        if sym:
            m['name'] = rname(rnd, 3) + b'|' + rname(rnd, 3)
        m['name'] = m['name'][:255 - 25]
    if lvl == 0:
        k = rnd.random()
        if sym or k < 0.3:
            m['area'] = bytes([rnd.choice(b'UK'), 0]) + H.u32(rnd.randrange(2 ** 32)) + (H.u32(7) if rnd.random() < 0.3 else b'') \
                + H.u16(0o120777 if sym else rnd.randrange(65536)) + H.u16(rnd.randrange(65536)) + H.u16(rnd.randrange(65536))
        elif k < 0.4 or os9_perm is not None:
            x = H.u16(os9_perm) if os9_perm is not None else bytes(rnd.randrange(256) for _ in range(2))
            m['area'] = b'9' + x + bytes(6) + b'\xcc' + bytes(7) + x + bytes(rnd.randrange(3, 6))
        elif k < 0.5:
            m['area'] = bytes([rnd.choice(b'XQ\0U9')]) + bytes(rnd.randrange(256) for _ in range(rnd.randrange(0, 22)))
    else:
        if exts_fixed is not None:
            exts = [(t, ext_data(rnd, t)) for t in exts_fixed]
        else:
            pool = EXT_TYPES + [0x39, 0x3f, 0x7f, 0x50, 1, 2]
            for _ in range(rnd.choice([0, 1, 2, 3, 5, 8])):
                t = rnd.choice(pool)
                d = ext_data(rnd, t)
                if rnd.random() < 0.1 and t in H.EXT_MINLEN:
                    d = d[:max(0, H.EXT_MINLEN[t] - 1)]          # too short for its type: must be ignored
                exts.append((t, d))
        has1 = any(t == 1 and len(d) >= 1 for t, d in exts)
        has2 = any(t == 2 and len(d) >= 1 for t, d in exts)
        if lvl >= 2 or rnd.random() < 0.5 or not m.get('name'):
            if not isdir and not has1:
                exts.insert(rnd.randrange(len(exts) + 1), (1, rname(rnd)))
            elif isdir and not has2:
                exts.insert(rnd.randrange(len(exts) + 1), (2, rname(rnd) + b'\xff'))
        if sym:
            exts = [e for e in exts if e[0] not in (0x50, 0xcc)] + [(0x50, H.u16(0o120777))]
            exts.append((1, rname(rnd, 2) + b'|' + rname(rnd, 3)))
        if os9_perm is not None:
            exts = [e for e in exts if e[0] != 0xcc] + [(0xcc, bytes(7) + H.u16(os9_perm) + bytes(3))]
        if exts_fixed is None and rnd.random() < 0.5:
            rnd.shuffle(exts)
        m['exts'] = exts
        if lvl == 1 and rnd.random() < 0.2:
            m['l1extra'] = bytes(rnd.randrange(256) for _ in range(rnd.randrange(1, 6)))
        if lvl == 2 and rnd.random() < 0.2:
            m['pad'] = b'\0'
    # keep level 0/1 headers within their one-byte length
    if lvl == 0 and 22 + len(m['name']) + len(m.get('area', b'')) > 255:
        m['name'] = m['name'][:255 - 22 - len(m.get('area', b''))]
    if lvl == 1 and 25 + len(m['name']) + len(m.get('l1extra', b'')) > 255:
        m['name'] = m['name'][:255 - 25 - len(m.get('l1extra', b''))]
    return m


SENTINEL = dict(level=2, method=b'-lh0-', size=4, crc=crc16(b'NEXT'), os=ord('U'), time=5, data=b'NEXT', exts=[(1, b'next')])


def shard(seed, n, tier, tz, fixed_lists):
    os.environ['TZ'] = tz
    time.tzset()
    tz_local = tz != 'UTC'
    sh = core.Shard()
    rnd = random.Random(seed)
    cases, models = [], []

    def add(m, tag):
        arc = H.build(m) + H.build(SENTINEL) + b'\0'
        cases.append(rdh.RCase(arc, [rdh.OP_NEXT, (rdh.OP_READ, 8), rdh.OP_NEXT], kind=rnd.choice([0, 2, 3]), flags=rdh.F_FULLDATA,
                               meta=tag))
        models.append(m)
    for lvl, exts in fixed_lists:
        add(gen(rnd, lvl, exts_fixed=list(exts)), 'ext-order')
    for i in range(n):
        add(gen(rnd), 'random')
    for p in range(256) if seed % 4 == 0 else []:
        add(gen(rnd, rnd.choice([0, 1, 2, 3]), os9_perm=p), 'os9-perms')

    def on_crash(case, cls, key, err):
        sh.violation('C05-crash:' + key, 'parsing a well-formed header ended in %s: %s' % (cls, err[-1000:]), case.archive)
    res = rdh.run_batch(_EXE, cases, sh, label='c05', on_crash=on_crash, env_extra={'TZ': tz})
    for c, m in zip(cases, models):
        ev = res.get(c.id)
        exp = H.normalise(m, tz_local)
        key = H.build_header(m)[0]
        nexts = [e[1] for e in (ev or []) if e[0] == 'next']
        sh.evaluated(key + tz.encode(), nontrivial=exp is not None and (m['level'] == 0 or len(m.get('exts', [])) >= 1 or m['level'] == 1))
        sh.hist('headers_by_level', m['level'])
        sh.hist('ext_chain_lengths', len(m.get('exts', [])) if m['level'] else 'level0')
        if m['level'] and m.get('exts'):
            sh.hist('ext_subsets_seen', ','.join('%02x' % t for t in sorted(set(t for t, _ in m['exts']))))
        sh.hist('os_types', m['os'] if m['level'] else 0)
        if m['size'] in (0, 2 ** 32 - 1, 2 ** 31):
            sh.hist('field_extremes', 'size=%d' % m['size'])
        if ev is None:
            continue
        got = nexts[0] if nexts else None
        lvltag = 'L%d' % m['level']
        if rdh.outcap_hit(ev):
            sh.count('abandoned_at_output_cap')
            continue
        if rdh.budget_hit(ev):
            sh.violation('C05-no-return:' + lvltag, 'a call did not return within %d stream callbacks on a well-formed archive (%s)'
                         % (c.budget, c.describe()), c.archive)
            continue
        if exp is None:
            sh.hist('model_rejects', lvltag)
            if got is not None and got['filename'] != b'next':
                sh.violation('C05-accepted-nameless:' + lvltag, 'entry without mandatory name/path was returned: %r' % (got,), c.archive)
            continue
        if got is None:
            sh.violation('C05-rejected-wellformed:' + lvltag, 'well-formed header not returned; model fields %r' % ({k: exp[k] for k in FIELDS},), c.archive)
            continue
        diffs = {k: (exp[k], got.get(k)) for k in FIELDS if got.get(k) != exp[k]}
        if (exp['flags'] & H.F_CCRC) == 0 and got['ccrc'] != 0:
            diffs['ccrc'] = (0, got['ccrc'])
        # data immediately after the header
        if m['method'] != b'-lhd-' and exp['method'] in (b'-lh0-', b'-lz4-', b'-pm0-') and exp['os'] != ord('m'):
            want = m['data'][:min(8, m['size'], exp['packed'] if exp['packed'] >= 0 else 0)]
            rd = [e[1] for e in ev if e[0] == 'read']
            if not rd or rd[0]['data'] != want:
                diffs['data'] = (want.hex(), rd[0]['data'].hex() if rd and rd[0]['data'] is not None else None)
        nxt = nexts[1] if len(nexts) > 1 else None
        if exp['packed'] == len(m['data']) and (nxt is None or nxt['filename'] != b'next'):
            diffs['following-member'] = ('next', nxt and nxt['filename'])
        if diffs:
            fld = sorted(diffs)[0]
            sh.violation('C05-field:%s:%s' % (lvltag, fld), 'returned header differs from the encoded fields (TZ=%s): %s' % (
                tz, {k: (repr(a)[:80], repr(b)[:80]) for k, (a, b) in diffs.items()}), c.archive)
        if len(sh.samples) < 2:
            sh.sample({'tz': tz, 'member': {k: (v.hex() if isinstance(v, bytes) else str(v)) for k, v in m.items()}, 'expected': {k: repr(exp[k]) for k in FIELDS}})
    return sh


def run(ctx):
    global _EXE
    b = build.Builder()
    _EXE = b.harness('asan', 'reader', ['h_reader.c'], wrap_alloc=True)
    maxsub = 3 if ctx.tier == 'quick' else 4
    fixed = []
    for lvl in (1, 2, 3):
        for k in range(0, maxsub + 1):
            for sub in itertools.combinations(EXT_TYPES, k):
                for perm in itertools.permutations(sub):
                    fixed.append((lvl, perm))
    ctx.cov['ext_orderings_enumerated'] = len(fixed)
    nsh = 12 if ctx.tier == 'quick' else 16
    per = 4000 if ctx.tier == 'quick' else 120000
    args = []
    for i in range(nsh):
        tz = 'UTC' if i % 3 else 'Europe/London'
        args.append((ctx.seed * 911 + i, per, ctx.tier, tz, fixed[i::nsh]))
    core.run_shards(ctx, shard, args)
    ctx.cov['exhaustive_subspace'] = 'every subset of the ten extended-header types of size <= %d in every order, at levels 1-3' % maxsub
    ctx.cov['rule'] = ('generated members (vlib/lhamodel/header.py encoder) followed by a sentinel member; fields biased to range ends; '
                       'distinct by header bytes + TZ; non-trivial = accepted by the model and carrying an in-header name or >= 1 extended header')
    ctx.assumptions += ['names without NUL are produced by choice of alphabet (NUL is hostile input, see C11)',
                        'Europe/London expectations for MS-DOS times use the C library mktime through Python']


def replay(ctx, path):
    run(ctx)
