"""C20 - freeing a reader releases everything, on any call history or allocation failure.
Monitors: allocator monitor (--wrap; every block obtained by library code must be released once reader and stream are
freed), descriptor balance (/proc/self/fd), ASan on the same build.  Fault enumeration: for each (archive, history) the
fault-free run counts N library allocations; then N runs with the k-th allocation failing, k = 1..N (exhaustive in k):
no leak, no sanitizer report, and the call during which the failure struck must report failure / end of archive."""
import os, random, glob
from .. import build, core, rdh, arc, streams
from ..lhamodel import header as H
from . import c15

LEVEL = 'fault_enumeration'
_EXE = None
OPCODE = c15.OPCODE


def histories_for(members, rnd, n, maxlen=14):
    out = []
    for _ in range(n):
        h = ['N']
        mode = None
        for _ in range(rnd.randrange(1, maxlen)):
            o = rnd.choice(c15.OPS + ['N', 'N', 'X', 'X', 'X'])
            if o == 'N':
                mode = None
            elif o in ('R1', 'R5', 'RA'):
                if mode not in (None, 'r'):
                    continue
                mode = 'r'
            else:
                if mode is not None:
                    continue
                mode = 'd'
            h.append(o)
        out.append(tuple(h))
    # walk everything with one operation, then abandon at every prefix
    for op in ('X', 'XN', 'C', 'RA'):
        full = []
        for _ in range(len(members) + 4):
            full += ['N', op]
        for cut in range(1, len(full) + 1, 1):
            out.append(tuple(full[:cut]))
    return out


def collision_archives(rnd, tier):
    """Archives in which entries collide on disk: the same name stored twice or as different kinds (file, directory, dangerous
    symlink, safe symlink, file below it).  What an extract call finds in place when it runs - nothing, its own placeholder,
    a directory, a link to a directory - selects return paths that ordinary archives never reach."""
    import itertools
    lv = lambda: rnd.choice([0, 1, 2, 3])
    kinds = {
        'file': lambda: arc.file_member(rnd, rnd.choice(['-lh0-', '-lh5-']), b'x', size=7, level=lv()),
        'dir': lambda: arc.dir_member(b'x/', level=lv(), perms=0o40755),
        'danger': lambda: arc.symlink_member(b'x', b'..', level=lv()),
        'danger2': lambda: arc.symlink_member(b'x', b'/abs/elsewhere', level=lv()),
        'safe': lambda: arc.symlink_member(b'x', b'y', level=lv()),
        'below': lambda: arc.file_member(rnd, '-lh0-', b'f', size=5, level=lv(), path=b'x/'),
        'dangerbelow': lambda: arc.symlink_member(b'x/l', b'../..', level=lv()),
    }
    out = []
    names = sorted(kinds)
    seqs = list(itertools.product(names, repeat=2))
    tri = list(itertools.product(names, repeat=3))
    rnd.shuffle(tri)
    seqs += tri[:(40 if tier == 'quick' else len(tri))]
    for sq in seqs:
        out.append(('collision:' + '+'.join(sq), [kinds[k]() for k in sq]))
    return out


def corpus_archives(tier, rnd):
    want = ['regression/symlink1.lzh', 'regression/symlink2.lzh', 'regression/symlink3.lzh', 'regression/dir.lzh',
            'lha_unix114i/h2_subdir.lzh', 'lha_unix114i/h1_subdir.lzh', 'lha_unix114i/h0_subdir.lzh', 'lha_unix114i/h2_symlink2.lzh',
            'maclha_224/l0_lh0.lzh', 'maclha_224/l1_lh5.lzh', 'maclha_224/l2_lh1.lzh', 'maclha_224/l1_full_subdir.lzh', 'lha_os9_211c/h1_subdir.lzh', 'lha_amiga_212/level2.lzh',
            'pmarc2/pm2.pma', 'larc333/lz5.lzs']
    out = []
    base = os.path.join(build.REPO, 'test', 'archives')
    for w in want:
        p = os.path.join(base, w)
        if os.path.exists(p) and os.path.getsize(p) < 30000:
            out.append((w, open(p, 'rb').read()))
    macs = sorted(glob.glob(os.path.join(base, 'maclha_224', '*')))
    for p in macs[:3 if tier == 'quick' else 40]:
        if os.path.getsize(p) < 30000:
            out.append((os.path.relpath(p, base), open(p, 'rb').read()))
    return out


def check_case(sh, c, ev, tag, injected):
    """Balance + (when a failure was injected) the failure-reporting rule."""
    al = [d for k, d in ev if k == 'alloc']
    en = [d for k, d in ev if k == 'end']
    if not al or not en:
        return None
    a, e = al[0], en[0]
    hist = list(c.meta[1])
    if a['live_blocks'] != 0:
        last = hist[-1] if hist else '-'
        sh.violation('C20-leak:%s:%s' % (tag, 'injected' if injected else 'fault-free'),
                     '%d blocks (%d bytes) obtained by the library are still allocated after lha_reader_free + lha_input_stream_free; %s history %s%s'
                     % (a['live_blocks'], a['live_bytes'], c.meta[0], hist, (' with allocation #%d failing' % c.fail_at) if injected else ''),
                     c.archive)
    if a['untracked_frees']:
        sh.violation('C20-foreign-free:' + tag, 'library freed a block it did not allocate', c.archive)
    if e['fds_before'] >= 0 and e['fds_after'] != e['fds_before']:
        sh.violation('C20-fd-leak:' + tag, 'open descriptors before %d after %d (history %s)' % (e['fds_before'], e['fds_after'], hist), c.archive)
    if injected:
        # find the operation during which the injected failure struck
        ops = [x for x in ev if x[0] in ('next', 'read', 'readall', 'check', 'extract')]
        steps = [d for k, d in ev if k == 'steps']
        for i, (st, (k, d)) in enumerate(zip(steps, ops)):
            if st['failed'] > 0:
                op = hist[i] if i < len(hist) else '?'
                ok = True
                if k == 'next':
                    # failure of next = end of archive; at end of archive the reader legitimately re-presents pending
                    # directories / deferred symlinks, so a re-presented ("fake") entry is the failure path too
                    ok = d is None or d['fake'] == 1
                elif k in ('check', 'extract'):
                    ok = d['result'] == 0
                elif k == 'read':
                    ok = d['n'] == 0
                elif k == 'readall':
                    ok = True        # a short result is its failure report; content is compared by C15
                if not ok:
                    what = ('returned header %r/%r' % (d['path'], d['filename'])) if k == 'next' else 'returned %r' % (d,)
                    sh.violation('C20-alloc-failure-swallowed:%s:%s' % (k, tag),
                                 'allocation #%d failed during op %d (%s) of history %s on %s, but the call %s instead of reporting failure'
                                 % (c.fail_at, i, op, hist, c.meta[0], what), c.archive)
                break
    return a['nalloc']


def shard(seed, items, tier):
    """items: (name, archive bytes, members-or-None)"""
    sh = core.Shard()
    rnd = random.Random(seed)
    base_cases = []
    for name, A, hs in items:
        for h in hs:
            policy = rnd.choice([0, 1, 1, 2])
            kind = rnd.choice([0, 2, 3, 1, 4, 4]) if rnd.random() < 0.6 else 2
            flags = rdh.F_HDRPATHS
            base_cases.append(rdh.RCase(A, [OPCODE[o] for o in h], kind=kind, policy=policy, flags=flags, meta=(name, h)))

    def on_crash(case, cls, key, err):
        sh.violation('C20-crash:%s:%s' % ('injected' if case.fail_at else 'fault-free', key),
                     'history %s on %s%s: %s: %s' % (list(case.meta[1]), case.meta[0], (' with allocation #%d failing' % case.fail_at) if case.fail_at else '',
                                                     cls, err[:1200]), case.archive)
    res = rdh.run_batch(_EXE, base_cases, sh, label='c20a', on_crash=on_crash)
    inj = []
    for c in base_cases:
        ev = res.get(c.id)
        sh.evaluated(c.archive[:2048] + repr((c.meta, c.policy, c.kind, 0)).encode(), nontrivial=len(c.meta[1]) > 1)
        sh.count('fault_free_runs')
        if ev is None or rdh.abandoned(ev):
            continue
        tag = 'hist-ends-in-' + (c.meta[1][-1] if c.meta[1] else 'none')
        n = check_case(sh, c, ev, tag, False)
        if n is None:
            continue
        sh.cov['max_allocations_in_one_history'] = max(sh.cov.get('max_allocations_in_one_history', 0), n)
        for k in range(1, n + 1):
            inj.append(rdh.RCase(c.archive, c.ops, kind=c.kind, policy=c.policy, flags=c.flags, fail_at=k, meta=c.meta))
    res2 = rdh.run_batch(_EXE, inj, sh, label='c20b', on_crash=on_crash)
    for c in inj:
        ev = res2.get(c.id)
        sh.evaluated(c.archive[:2048] + repr((c.meta, c.policy, c.kind, c.fail_at)).encode(), nontrivial=True)
        sh.count('injected_runs')
        if ev is None or rdh.abandoned(ev):
            continue
        al = [d for k, d in ev if k == 'alloc']
        if al and al[0]['failed'] == 0:
            sh.count('injections_not_reached')     # history diverged before allocation k (earlier failure impossible here) - informative only
        tag = 'hist-ends-in-' + (c.meta[1][-1] if c.meta[1] else 'none')
        check_case(sh, c, ev, tag, True)
    if base_cases:
        c = base_cases[len(base_cases) // 2]
        sh.sample({'archive': c.meta[0], 'history': list(c.meta[1]), 'policy': c.policy, 'stream_kind': rdh.KIND_NAMES[c.kind],
                   'fault_enumeration': 'k = 1..N for the N allocations of the fault-free run'})
    return sh


def run(ctx):
    global _EXE
    b = build.Builder()
    _EXE = b.harness('asan', 'reader', ['h_reader.c'], wrap_alloc=True)
    rnd = random.Random(ctx.seed)
    items = []
    depth = 4 if ctx.tier == 'quick' else 6
    hs = []
    for d in range(1, depth + 1):
        hs += c15.legal_histories(d)
    for name, members in c15.fixed_archives(rnd):
        mine = hs if ctx.tier == 'thorough' else rnd.sample(hs, min(len(hs), 120))
        items.append((name, arc.archive(members), mine + histories_for(members, rnd, 0)))
    for i in range(30 if ctx.tier == 'quick' else 600):
        members = c15.random_archive(rnd)
        # owner-name extended headers and one member whose recorded CRC is wrong (extraction/check fail paths)
        for x in members:
            if x.kind == 'file' and x.m['level'] >= 1 and rnd.random() < 0.5:
                x.m['exts'] = x.m['exts'] + [(0x53, b'user%d' % i), (0x52, b'grp')]
        bad = [x for x in members if x.kind == 'file' and len(x.plain) > 0]
        if bad and i % 2 == 0:
            bad[0].m['crc'] ^= 0x5a5a
        items.append(('generated-%d' % i, arc.archive(members), histories_for(members, rnd, 4 if ctx.tier == 'quick' else 12)[:(14 if ctx.tier == 'quick' else 80)]))
    # headers in which an extended header of the same type occurs two or three times (the last one wins; what the earlier
    # ones allocated must be released)
    nrep = 0
    for lvl in (1, 2, 3):
        for t, vals in ((0x01, [b'first-name', b'nm', b'third']), (0x02, [b'one\xff', b'two\xfflonger\xff', b'x\xff']), (0x53, [b'user-one', b'u2', b'user-three-long']),
                        (0x52, [b'grp', b'group-two', b'g']), (0x50, [H.u16(0o100644), H.u16(0o100600)]), (0x51, [H.u16(1) + H.u16(2), H.u16(3) + H.u16(4)]),
                        (0x54, [H.u32(1000000000), H.u32(1100000000)]), (0x41, [bytes(24), bytes(range(24))])):
            for reps in (2, 3):
                x = arc.file_member(rnd, '-lh5-', b'base', size=30, level=lvl)
                extra = [(t, v) for v in vals[:reps]]
                if t in (0x52, 0x53) and reps == 3:
                    extra += [(0x52 if t == 0x53 else 0x53, b'other'), (0x52 if t == 0x53 else 0x53, b'other-again')]
                x.m['exts'] = x.m['exts'] + extra if lvl != 1 else extra + x.m['exts']
                tail = arc.file_member(rnd, '-lh0-', b'after', size=3, level=2)
                items.append(('repeated-ext-%02x-x%d-L%d' % (t, reps, lvl), arc.archive([x, tail]),
                              [('N', 'N', 'N'), ('N', 'RA', 'N', 'C'), ('N', 'X', 'N', 'X', 'N'), ('N',)]))
                nrep += 1
    ctx.cov['repeated_ext_header_archives'] = nrep
    # archives that end anywhere - inside a header, an extended header chain, member data: every cut offset of small archives
    # of every header level, walked to the end (and with every allocation failing in turn)
    ncut = 0
    for name, members in c15.fixed_archives(rnd)[:(2 if ctx.tier == 'quick' else 4)] + [('levels-0-3', [arc.file_member(rnd, '-lh5-', b'file%d' % l, size=20, level=l, path=b'dir/') for l in (0, 1, 2, 3)])]:
        A = arc.archive(members)
        step = 1 if ctx.tier == 'thorough' or len(A) < 260 else 2
        for cut in range(1, len(A), step):
            h = []
            for _ in range(len(members) + 2):
                h += ['N', ('C', 'X', 'RA')[cut % 3]]
            items.append(('%s@cut%d' % (name, cut), A[:cut], [tuple(h)]))
            ncut += 1
    ctx.cov['truncated_archives'] = ncut
    # entries whose stored path consists of '.', '..', empty components or separators only (it collapses to nothing or to '/'), as
    # directory entries and as files; whatever the reader decides about them, it must give their memory back.  Never extracted.
    nodd = 0
    for lvl in (0, 1, 2, 3):
        for pth in (b'./', b'../', b'sub/../', b'a/./', b'/', b'//', b'.//', b'a/../../', b'./././', b'sub/../../x/../'):
            ms = [arc.dir_member(pth, level=lvl, perms=0o40755), arc.file_member(rnd, '-lh0-', b'f', size=3, level=lvl, path=pth),
                  arc.file_member(rnd, '-lh5-', b'after', size=9, level=2)]
            for keep in ((0, 2), (1, 2), (0, 1, 2)):
                items.append(('odd-path-L%d-%s' % (lvl, pth.decode()), arc.archive([ms[k] for k in keep]), [('N', 'N', 'N', 'N'), ('N', 'C', 'N', 'C', 'N', 'RA', 'N')]))
                nodd += 1
    ctx.cov['odd_path_archives'] = nodd
    ncoll = 0
    for name, members in collision_archives(rnd, ctx.tier):
        full = []
        for op in (('X',) if ctx.tier == 'quick' else ('X', 'XN', 'C')):
            h = []
            for _ in range(len(members) + 4):
                h += ['N', op]
            full.append(tuple(h))
            if ctx.tier == 'thorough':
                full += [tuple(h[:c]) for c in range(2, len(h), 2)]
        items.append((name, arc.archive(members), full))
        ncoll += 1
    ctx.cov['collision_archives'] = ncoll
    for name, A in corpus_archives(ctx.tier, rnd):
        full = []
        for op in ('X', 'C', 'RA'):
            h = []
            for _ in range(8):
                h += ['N', op]
            full.append(tuple(h))
            full.append(tuple(h[:rnd.randrange(1, len(h))]))
        items.append((name, A, full if ctx.tier == 'thorough' else full[:4]))
    # split the work by history so that shards are balanced
    flat = [(name, A, [h]) for name, A, hl in items for h in hl]
    rnd.shuffle(flat)
    nsh = 16
    core.run_shards(ctx, shard, [(ctx.seed * 7 + i, flat[i::nsh], ctx.tier) for i in range(nsh)])
    ctx.cov['histories'] = len(flat)
    ctx.cov['exhaustive'] = True
    ctx.cov['exhaustive_subspace'] = 'for every (archive, history) run: every k in 1..N where N = allocations made by the library in the fault-free run'
    ctx.cov['rule'] = ('(archive, history, policy, stream kind, k) tuples; histories obey the C15 side conditions and include every prefix of full '
                       'walks (abandon anywhere; archives cut at every offset; entries whose path is made of dots and separators only; headers repeating an extended header of the same type two or three times; archives whose entries collide on disk - the same name twice or as file/directory/dangerous/safe symlink - so '
                       'that extract calls find unexpected things in place, also while a re-presented directory or deferred symlink is current), extraction with header paths '
                       'and explicit names; k enumerated over all allocations; distinct by the whole tuple; non-trivial = history longer than one op '
                       'or any injected run')
    ctx.assumptions.append('only allocations made by lhasa code are monitored (link-time wrap); libc-internal ones are covered by descriptor balance and ASan')


def replay(ctx, path):
    run(ctx)
