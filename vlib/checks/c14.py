"""C14 - decoder reads are split-invariant, stop exactly at the declared length, report the length and
CRC-16 of exactly the bytes returned, and announce progress 0,1,..,total one by one.
Reference for each (method, stream, declared n) = a single maximal read on a fresh decoder; every other
schedule must reproduce its bytes; CRC is recomputed independently (bitwise) over the returned bytes."""
import random, itertools
from .. import build, core, dech, streams
from ..lhamodel.crc16 import crc16

LEVEL = 'exploration'
_EXE = None


def compositions(n):
    """All ordered ways to write n as a sum of positive parts (2^(n-1))."""
    if n == 0:
        yield []
        return
    for mask in range(1 << (n - 1)):
        parts, cur = [], 1
        for i in range(n - 1):
            if (mask >> i) & 1:
                parts.append(cur)
                cur = 1
            else:
                cur += 1
        parts.append(cur)
        yield parts


def make_streams(rnd, method, tier):
    """[(kind, stream bytes, model plain or None)]"""
    out = []
    sizes = [1, 6, 60, 400] if tier == 'quick' else [1, 3, 6, 60, 400, 3000]
    for sz in sizes:
        s, p, _ = streams.valid_stream(rnd, method, sz)
        out.append(('valid', s, p))
    s, p, _ = streams.valid_stream(rnd, method, 120)
    if len(s) > 2:
        out.append(('truncated', s[:rnd.randrange(1, len(s))], None))
        b = bytearray(s)
        for _ in range(rnd.choice([1, 3])):
            b[rnd.randrange(len(b))] ^= 1 << rnd.randrange(8)
        out.append(('bitflip', bytes(b), None))
    out.append(('random', bytes(rnd.randrange(256) for _ in range(rnd.choice([1, 7, 64, 500]))), None))
    out.append(('empty', b'', None))
    return out


def shard(method, seed, tier, sweep=False):
    sh = core.Shard()
    rnd = random.Random(seed)
    cases = []
    groups = []          # (ref_case, [sched cases], meta)
    for kind, stream, plain in make_streams(rnd, method, tier):
        exact = len(plain) if plain is not None else rnd.choice([10, 300, 5000])
        decl = sorted(set([0, 1, max(0, exact - 1), exact, exact + 1, exact // 2, exact + 70000]))
        if plain is not None and len(plain) <= 12:
            decl = sorted(set(decl + list(range(0, len(plain) + 2))))
        for n in decl:
            big = max(n, 1) + 100000
            ref = dech.Case(method, stream, n, sched=[big], flags=dech.F_MONITOR | dech.F_ONEREAD, attach_after=0,
                            meta=('ref', kind, n))
            scheds = []
            for k in (1, 2, 3, 16, 64, 4096):
                if k == 1 and n > 20000:
                    continue
                scheds.append([k])
            scheds.append([big])
            for _ in range(3 if tier == 'quick' else 8):
                scheds.append([rnd.choice([0, 0, 1, 2, 5, 17, 100, 1000, 70000]) for _ in range(rnd.randrange(1, 12))] + [rnd.choice([1, 7, 999])])
            scheds.append([0, 0, 1, 0, 5000, 0, 3])
            scheds.append([0])       # only a zero-length read, then (repeating 0) the harness stops: total must be 0
            short = min(n, exact if plain is not None else n)
            if plain is not None and 0 < short <= (9 if tier == 'quick' else 12) and n <= short + 1:
                for parts in compositions(short):
                    scheds.append(parts + [3])
                sh.count('exhaustive_composition_sets')
            sc = []
            for i, s in enumerate(scheds):
                attach = rnd.choice([dech.NOATTACH, 0, 1, 2, rnd.randrange(0, 50), 1 << 30])
                fl = dech.F_MONITOR if attach != dech.NOATTACH else 0
                sc.append(dech.Case(method, stream, n, sched=s, flags=fl, attach_after=0 if attach == dech.NOATTACH else attach,
                                    meta=('sched', kind, n)))
            cases.append(ref)
            cases += sc
            groups.append((ref, sc, kind, n, plain))

    # declared lengths of 2^32 bytes and more (size_t is 64 bits wide; the declared length is an argument of lha_decoder_new, not
    # only a 32-bit header field): a stream that denotes far less must give the same bytes, length and CRC as under 2^31-1
    if method != '-pm1-':
        s_, p_, _ = streams.valid_stream(rnd, method, rnd.choice([6, 60, 400]))
        for n_ in (1 << 32, (1 << 32) + 100, (1 << 32) + 5000, (1 << 33) + 77, 3 * (1 << 32) + 18000, 1 << 40, (1 << 32) - 1):
            cap = len(p_) + 200000
            ref = dech.Case(method, s_, (1 << 31) - 1, sched=[1 << 22], flags=dech.F_ONEREAD, max_total=cap, meta=('ref', 'huge-declared', n_))
            sc = [dech.Case(method, s_, n_, sched=sd, max_total=cap, meta=('sched', 'huge-declared', n_)) for sd in ([1], [16], [777], [65536], [1 << 22])]
            cases.append(ref)
            cases += sc
            groups.append((ref, sc, 'huge-declared', n_, None))
        sh.count('huge_declared_length_groups', 7)

    # truncation sweep: a valid stream cut at every byte offset; the one-call reference against reads that carry on after
    # the first short read (whatever is left in the bit buffer after a failure must not be decoded by a later call)
    if sweep or tier == 'thorough':
        s, p, _ = streams.valid_stream(rnd, method, 150 if tier == 'quick' else rnd.choice([60, 150, 600]))
        cuts = list(range(1, len(s)))
        if len(cuts) > 400:
            cuts = sorted(rnd.sample(cuts, 400))
        for cut in cuts:
            n = len(p)
            big = n + 100000
            ref = dech.Case(method, s[:cut], n, sched=[big], flags=dech.F_ONEREAD, meta=('ref', 'truncation-sweep', n))
            sc = [dech.Case(method, s[:cut], n, sched=sd, meta=('sched', 'truncation-sweep', n)) for sd in ([1], [16], [big], [rnd.randrange(2, 3000)])]
            cases.append(ref)
            cases += sc
            groups.append((ref, sc, 'truncation-sweep', n, None))
        sh.count('truncation_sweep_cuts', len(cuts))

    def on_crash(case, cls, key, err):
        sh.violation('C14-crash:' + key, '%s decoder (%s stream, declared %d, schedule %s) ended in %s: %s'
                     % (case.method, case.meta[1], case.declared, case.sched[:8], cls, err[-1000:]), case.stream)
    res = dech.run_batch(_EXE, cases, sh, label='c14', on_crash=on_crash)

    def check_one(c, r, refbytes, kind, n):
        tag = '%s:%s' % (method, kind)
        if r.apiv & 1:
            sh.violation('C14-read-returned-more-than-asked:' + tag, 'schedule %s declared %d' % (c.sched[:10], n), c.stream)
        if r.apiv & 4 or r.total > n:
            sh.violation('C14-exceeds-declared:' + tag, 'returned %d bytes for declared length %d (schedule %s)' % (r.total, n, c.sched[:10]), c.stream)
        if r.apiv & 16:
            sh.violation('C14-accessors-mid-stream:' + tag, 'after some read of schedule %s (declared %d) get_crc / get_length did not describe exactly the bytes returned so far'
                         % (c.sched[:10], n), c.stream)
        if r.apiv & 8:
            sh.violation('C14-zero-read-changed-state:' + tag, 'a zero-length read changed reported length/CRC (schedule %s)' % c.sched[:10], c.stream)
        if r.len_rep != r.total:
            sh.violation('C14-length-report:' + tag, 'get_length=%d but %d bytes were returned (schedule %s, declared %d)' % (r.len_rep, r.total, c.sched[:10], n), c.stream)
        own = crc16(r.out)
        if r.crc_rep != own or r.crc_own != own:
            sh.violation('C14-crc-report:' + tag, 'get_crc=%04x but CRC-16 of the %d returned bytes is %04x (schedule %s, declared %d)'
                         % (r.crc_rep, r.total, own, c.sched[:10], n), c.stream)
        if refbytes is not None and c.sched != [0]:
            if r.out != refbytes:
                k = next((i for i in range(min(len(refbytes), len(r.out))) if refbytes[i] != r.out[i]), min(len(refbytes), len(r.out)))
                sh.violation('C14-split-variance:' + tag, 'schedule %s gave %d bytes, single maximal read gave %d; first difference at %d (declared %d)'
                             % (c.sched[:12], len(r.out), len(refbytes), k, n), c.stream)
        if c.flags & dech.F_MONITOR:
            cb = r.cbs
            sh.count('progress_callbacks_seen', r.ncb_total)
            if r.ncb_total == len(cb):
                nums = [x[0] for x in cb]
                tots = set(x[1] for x in cb)
                if nums != list(range(len(nums))) or len(tots) > 1 or not cb:
                    sh.violation('C14-progress-sequence:' + tag, 'callback sequence %s (attach after %d reads, schedule %s, declared %d)'
                                 % (cb[:12], c.attach_after, c.sched[:8], n), c.stream)
                else:
                    tot = cb[0][1]
                    if nums[-1] > tot:
                        sh.violation('C14-progress-beyond-total:' + tag, 'last block %d > announced total %d' % (nums[-1], tot), c.stream)
                    if r.total == n and c.sched != [0] and nums[-1] != tot:
                        sh.violation('C14-progress-incomplete:' + tag, 'stream decoded completely (%d bytes) but callbacks stopped at %d of %d '
                                     '(attach after %d reads, schedule %s)' % (n, nums[-1], tot, c.attach_after, c.sched[:8]), c.stream)

    for ref, sc, kind, n, plain in groups:
        rr = res.get(ref.id)
        if rr is None:
            continue
        check_one(ref, rr, None, kind, n)
        if plain is not None:
            # beyond the bytes its commands denote a stream's padding may legitimately decode to more
            # (pm1 is implicitly endless), so only the first min(n, exact) bytes are demanded
            want = plain[:n]
            if rr.out[:len(plain)] != want:
                sh.violation('C14-valid-stream-wrong:%s' % method, 'maximal read of a valid stream gave %d bytes, model says %d (declared %d)'
                             % (len(rr.out), len(want), n), ref.stream)
        for c in sc:
            r = res.get(c.id)
            if r is None:
                continue
            check_one(c, r, rr.out, kind, n)
            sh.evaluated(method.encode() + c.stream + repr((n, c.sched, c.attach_after, c.flags)).encode(),
                         nontrivial=len(rr.out) > 1 and c.sched not in ([0],) and len(c.sched) >= 1)
            sh.hist('pairs_by_method', method)
            sh.hist('pairs_by_stream_kind', kind)
        sh.hist('attach_points', 'mix')
    if groups:
        g = groups[0]
        sh.sample({'method': method, 'stream_kind': g[2], 'declared': g[3], 'stream_hex': g[0].stream.hex()[:80],
                   'schedules': [c.sched[:8] for c in g[1][:5]]})
    return sh


def uninit_shard(method, seed, tier):
    """Uninitialised-memory differential.  The same (stream, declared length, schedule) cases are decoded by two processes that
    differ in one thing only: the byte with which the stack region about to be used, and every fresh heap block, was filled
    beforehand (0x00 / 0xA5).  If an output differs, an uninitialised byte decided it - and then no reference, single maximal read
    or otherwise, is a function of the stream, which is what every clause of the statement presupposes.  Streams: every cut of
    valid streams (commands cut in the middle), bit flips, hostile tables, random bytes."""
    sh = core.Shard()
    rnd = random.Random(seed)
    cases = []
    from . import c09
    from ..lhamodel import lhnew
    for rep in range(3 if tier == 'quick' else 20):
        s, p, _ = streams.valid_stream(rnd, method, rnd.choice([4, 30, 200]))
        cuts = range(1, len(s)) if len(s) <= 80 else sorted(set([len(s) - 1, len(s) - 2, len(s) - 3] + [rnd.randrange(1, len(s)) for _ in range(40)]))
        for cut in cuts:
            for fl in (0, dech.F_DIRECT):       # through lha_decoder_read, and with the decoder type's callbacks driven directly (shallower stack)
                cases.append(dech.Case(method, s[:cut], len(p) + rnd.choice([0, 0, 50]), sched=[rnd.choice([1, 7, 4096])], flags=fl,
                                       max_total=len(p) + 100, meta='cut'))
        b = bytearray(s)
        for _ in range(rnd.choice([1, 2, 6])):
            if b:
                b[rnd.randrange(len(b))] ^= 1 << rnd.randrange(8)
        cases.append(dech.Case(method, bytes(b), len(p) + 20, sched=[4096], max_total=len(p) + 100, meta='bitflip'))
        cases.append(dech.Case(method, bytes(rnd.randrange(256) for _ in range(rnd.choice([1, 2, 3, 9, 200]))), 3000, sched=[4096], max_total=3000, meta='random'))
        if method in lhnew.METHODS:
            cases.append(dech.Case(method, c09.hostile_lhnew(rnd, method), 3000, sched=[4096], max_total=3000, meta='hostile-tables'))
        elif method == '-pm2-':
            cases.append(dech.Case(method, c09.hostile_pm2(rnd), 3000, sched=[4096], max_total=3000, meta='hostile-tables'))
    runs = []
    for fill in (0x00, 0xa5):
        crashed = []
        res = dech.run_batch(_EXE, cases, sh, label='c14u%02x' % fill, on_crash=lambda c, cls, key, err: crashed.append(c.id), env_extra=dech.fill_env(fill))
        runs.append((res, set(crashed)))
    for c in cases:
        sh.evaluated(method.encode() + c.stream + repr((c.declared, c.sched, c.flags)).encode() + b'uninit', nontrivial=len(c.stream) > 1)
        sh.hist('uninit_differential_cases', c.meta)
        a, b_ = runs[0][0].get(c.id), runs[1][0].get(c.id)
        if a is None or b_ is None or c.id in runs[0][1] or c.id in runs[1][1]:
            continue                # a crash is C09's business; nothing to compare
        if (a.out, a.total, a.status, a.len_rep, a.crc_rep) != (b_.out, b_.total, b_.status, b_.len_rep, b_.crc_rep):
            k = next((i for i in range(min(len(a.out), len(b_.out))) if a.out[i] != b_.out[i]), min(len(a.out), len(b_.out)))
            sh.violation('C14-output-decided-by-uninitialised-memory:%s' % method,
                         '%s, %s stream of %d bytes, declared %d, schedule %s: decoded twice, with stack and fresh heap blocks pre-filled with 0x00 and with 0xA5 - '
                         '%d vs %d bytes returned, first difference at byte %d (%s vs %s): an uninitialised byte decides the output, so it is not a function of the stream'
                         % (method, c.meta, len(c.stream), c.declared, c.sched, a.total, b_.total, k, a.out[k:k + 4].hex(), b_.out[k:k + 4].hex()), c.stream)
    sh.count('uninit_differential_pairs', len(cases))
    return sh


def _dispatch14(kind, *a):
    return uninit_shard(*a) if kind == 'uninit' else shard(*a)


def run(ctx):
    global _EXE
    b = build.Builder()
    _EXE = b.harness('asan', 'decode', ['h_decode.c'])
    args = []
    reps = 4 if ctx.tier == 'quick' else 40
    for mi, m in enumerate(streams.ALL_METHODS):
        for r in range(reps):
            args.append(('main', m, ctx.seed * 4001 + mi * 17 + r, ctx.tier, r == 0))
        args.append(('uninit', m, ctx.seed * 577 + mi, ctx.tier))
    core.run_shards(ctx, _dispatch14, args)
    ctx.cov['rule'] = ('(method, stream, declared length, read schedule, monitor attach point) tuples over all 14 method names; streams: '
                       'valid (from the serialisers), truncated (random cut, plus a sweep over every cut of one stream per method), '
                       'bit-flipped, random, empty; declared lengths of 2^32 .. 2^40 on streams that denote far less; the reference is ONE maximal lha_decoder_read call, the schedules carry on until a '
                       'read returns 0; schedules: fixed 1/2/3/16/64/4096, maximal, '
                       'random mixes with zero-length reads, and all 2^(n-1) compositions for outputs of <= 9 (quick) / 12 (thorough) bytes; '
                       'distinct by the whole tuple; non-trivial = reference output longer than 1 byte and schedule other than a lone zero read')
    ctx.assumptions.append('the input callback of the harness delivers exactly what is asked while data remains (short only at end of data)')


def replay(ctx, path):
    run(ctx)
