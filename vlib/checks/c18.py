"""C18 - archive-derived text printed by the tool is printable ASCII only.
Oracle: every byte of stdout and stderr is in {0x20..0x7E, LF, CR, TAB}.  Workload: every byte value 0x01..0xFF planted in
every archive-derived text field (in-header names, file-name / path / user / group extended headers, link targets, the
5-byte method field of the first and of later members) across header levels, through every command that prints them."""
import os, random, shutil
from concurrent.futures import ThreadPoolExecutor
from .. import build, core, cli, arc, fsmon
from ..lhamodel import header as H
from ..lhamodel.crc16 import crc16

LEVEL = 'exploration'
MODES = ['l', 'lv', 'v', 'vv', 't', 'x', 'e', 'xn', 'xfq0', 'xfq1', 'xfq2', 'xfw=out', 'p', 'pq', 'pn', 'lq', 'vq', 'xfi', 'tq1']
ALLOWED = set(range(0x20, 0x7f)) | {0x0a, 0x0d, 0x09}
DATA = b'printable member data\n'
PERCENT_NAMES = {}


def member(level, field, byte, idx, rnd):
    """A member with `byte` planted in `field`."""
    b = bytes([byte])
    tag = b'%d' % idx
    name, path, method, exts, target = b'n' + tag, None, b'-lh0-', [], None
    if field == 'name':
        name = b'n' + b + tag
    elif field == 'path':
        path = b'p' + b + tag + b'/'
    elif field == 'method':
        method = b'-l' + b + b'x-' if idx else b'-lh' + b + b'-'      # the first member must still look like a header to the scanner
    elif field == 'method-all':
        method = bytes([byte, (byte * 7 + 1) % 255 + 1, (byte * 13 + 5) % 255 + 1, byte, (byte + 128) % 255 + 1]) if idx else b'-lh' + b + b'-'
    m = dict(level=level, method=method, size=len(DATA), crc=crc16(DATA), data=DATA, os=ord('U'))
    if field == 'target':
        mm = H.symlink_member(b'l' + tag, b't' + b + b'x', level=level)
        return arc.Member(mm, b'', b'', kind='symlink')
    if level in (0, 1):
        m['dostime'] = H.unix_to_dos(1000000000)
        full = (path or b'') + name
        if byte in (0x2f, 0x5c) and field in ('name', 'path'):
            pass
        m['name'] = full
        if level == 1:
            m['exts'] = []
            if field in ('user', 'owner'):
                m['exts'].append((0x53, b'u' + b + b'r'))
            if field in ('group', 'owner'):
                m['exts'].append((0x52, b'g' + b + b'p'))
            if field == 'owner' and idx % 2:
                m['exts'].append((0x51, bytes([100, 0, 200, 0])))
    else:
        m['time'] = 1000000000
        ex = [(1, name)]
        if path:
            ex.append((2, path.replace(b'/', b'\xff')))
        if field in ('user', 'owner'):
            ex.append((0x53, (b'u' + b + b'r') if idx % 3 else (b + b'usr')))
        if field in ('group', 'owner'):
            ex.append((0x52, (b'g' + b + b'p') if idx % 3 != 1 else (b'grou' + b)))
        if field == 'owner' and idx % 2:
            ex.append((0x51, bytes([100, 0, 200, 0])))
        m['exts'] = ex
    return arc.Member(m, DATA, DATA)


def one(job):
    n, A, mode, base, exe, so, desc = job
    d = os.path.join(base, 'r%d' % n)
    root = os.path.join(d, 'root')
    os.makedirs(d)
    cli.mkdir_for_nobody(root)
    p = os.path.join(root, 'a.lzh')
    open(p, 'wb').write(A)
    os.chmod(p, 0o644)
    if mode.startswith('x') and 'n' not in mode:
        # an error path too: something in the way of a parent directory
        pass
    answers = [b'y\n' * 50, b'n\n' * 50, b'q\ny\nn\n' * 20, b's\n', b'a\n'][n % 5]
    rc, so_, se, evs = fsmon.run_monitored(exe, so, [mode, 'a.lzh'], root, stdin=answers)
    bad = []
    for stream, data in (('stdout', so_), ('stderr', se)):
        for i, c in enumerate(data):
            if c not in ALLOWED:
                bad.append((stream, i, c, data[max(0, i - 30):i + 10]))
                break
    if desc.startswith('percent') and mode in ('l', 'lv', 'v', 'vv', 't'):
        for nm_ in PERCENT_NAMES.get(A, []):
            if nm_ not in so_:
                bad.append(('stdout', -1, 0x25, b'name %s does not appear verbatim' % nm_))
                break
    shutil.rmtree(d, ignore_errors=True)
    return n, A, mode, rc, bad, len(so_) + len(se), desc, any(e.denied for e in evs)


def run(ctx):
    b = build.Builder()
    exe = b.cli('plain')
    so = b.shared('fsmon', 'fsmon.c')
    rnd = random.Random(ctx.seed)
    base = os.path.join(build.scratch_root(), 'c18')
    os.makedirs(base, exist_ok=True)
    os.chmod(base, 0o755)
    fields = ['name', 'path', 'target', 'user', 'group', 'owner', 'method', 'method-all']
    archives = []
    per = 16
    planted = set()
    for field in fields:
        for lvl in (0, 1, 2, 3):
            if field in ('user', 'group', 'owner') and lvl == 0:
                continue
            byts = list(range(1, 256))
            if ctx.tier == 'quick':
                # every byte value at least once per field (levels take turns), all four levels for the control/high classes
                byts = [x for x in byts if x % 4 == lvl or x in (0x1b, 0x07, 0x7f, 0x80, 0xff, 0x0a, 0x0d, 0x09, 0x9b)]
            for i in range(0, len(byts), per):
                chunk = byts[i:i + per]
                ms = [member(lvl, field, x, k, rnd) for k, x in enumerate(chunk)]
                if field in ('name', 'path'):
                    # every member twice: the second extraction finds the file in place, so plain 'x'/'e' reach the overwrite
                    # prompt (stderr) and the "Skipped" / replaced paths with the hostile name
                    ms = ms + [member(lvl, field, x, k, rnd) for k, x in enumerate(chunk)]
                for x in chunk:
                    planted.add((field, x))
                archives.append(('%s L%d bytes %02x..%02x' % (field, lvl, chunk[0], chunk[-1]), arc.archive(ms)))
    # long strings: names, paths, targets and owner names of 200..1000 bytes with the hostile byte last, first, and at the
    # positions around 255/256 (whatever fixed-size buffers the printing code may use)
    for fld in ('name', 'path', 'target', 'user'):
        for hb in (0x1b, 0x9b, 0x7f, 0x07):
            ms = []
            for k, total in enumerate((200, 250, 254, 255, 256, 257, 258, 300, 511, 512, 513, 1000)):
                for pos in ((total - 1, 0, 254, 255, 256) if ctx.tier == 'thorough' else (total - 1, (0, 254, 255, 256)[k % 4])):
                    if pos >= total:
                        continue
                    body = bytearray(b'L%03d' % (k * 7 + pos % 7) + b'a' * (total - 4))
                    body[pos] = hb
                    body = bytes(body)
                    if fld == 'path' and len(ms) % 3 == 1:
                        # the same over-long component in front of a directory entry and of a link (their parents are created
                        # and stat'ed on other code paths than those of files; a component over NAME_MAX makes stat fail)
                        ms.append(arc.Member(H.dir_member(body + b'/sub/', level=2, perms=0o40755), b'', b'', kind='dir'))
                        ms.append(arc.Member(H.symlink_member(body + b'/in/lnk', b'tgt', level=2), b'', b'', kind='symlink'))
                    if fld == 'name':
                        mm = H.simple_member(body, DATA, level=2)
                    elif fld == 'path':
                        mm = H.simple_member(b'f%d' % len(ms), DATA, level=2, path=body + b'/')
                    elif fld == 'target':
                        mm = H.symlink_member(b'lnk%d' % len(ms), body, level=2)
                    else:
                        mm = H.simple_member(b'o%d' % len(ms), DATA, level=2, extra_exts=[(0x53, body), (0x52, body[::-1])])
                    ms.append(arc.Member(mm, DATA if fld != 'target' else b'', DATA if fld != 'target' else b'', kind='symlink' if fld == 'target' else 'file'))
            if fld in ('name', 'path'):
                ms = ms + ms[:6]
            archives.append(('long-%s byte %02x' % (fld, hb), arc.archive(ms)))
    # printable text that means something to printf: conversions in names, paths, targets and owner names.  Nothing outside the
    # allowed set may appear, the tool must not die, and (list modes) the name must come out verbatim.
    PCT = [b'r%c%c%c%c%c%c%c%c.txt', b'%x%x%x%x%x%x', b'%08d%08d', b'100%%done', b'%', b'%5$c', b'a%hhc%hhc%hhc%hhc', b'%lc%lc%lc', b'%*d', b'%.3000d']
    for lvl in (0, 1, 2):
        ms = []
        for k, nm_ in enumerate(PCT):
            ms.append(arc.Member(H.simple_member(b'%d_' % k + nm_, DATA, level=lvl), DATA, DATA))
        ms.append(arc.Member(H.simple_member(b'f', DATA, level=max(lvl, 1), path=b'd%c%c%c/'), DATA, DATA))
        ms.append(arc.Member(H.symlink_member(b'lnk', b't%c%c%c%c', level=2), b'', b'', kind='symlink'))
        ms.append(arc.Member(H.simple_member(b'own', DATA, level=2, extra_exts=[(0x53, b'u%c%c'), (0x52, b'g%c%c')]), DATA, DATA))
        archives.append(('percent L%d' % lvl, arc.archive(ms)))
        PERCENT_NAMES[archives[-1][1]] = [b'%d_' % k + nm_ for k, nm_ in enumerate(PCT)]
    # single header bytes that end up in the output as characters: the OS-type byte of level 1-3 headers (shown as an OS name in
    # the permission column when the member carries no permissions) over all 256 values, and the level-0 attribute byte
    for lvl in (1, 2, 3):
        for half in (0, 1):
            ms = []
            for v in range(half * 128, half * 128 + 128):
                mm = H.simple_member(b'o%03d' % v, DATA, level=lvl, os_type=v)
                ms.append(arc.Member(mm, DATA, DATA))
            archives.append(('os-type L%d bytes %02x..%02x' % (lvl, half * 128, half * 128 + 127), arc.archive(ms)))
    # error paths: a regular file in the way of a parent directory; unsupported method
    for hb in (0x1b, 0x07, 0x9b, 0xff if False else 0xfe, 0x7f):
        bn = b'blo' + bytes([hb]) + b'cker'
        ms = [arc.Member(H.simple_member(bn, b'abc', level=2), b'abc', b'abc'),
              arc.symlink_member(bn + b'/lnk', b'tgt', level=2),          # reaches "Parent path ... is not a directory!"
              arc.dir_member(bn + b'/sub\x02dir/', level=2, perms=0o40755),
              arc.Member(dict(H.simple_member(b'in\x1bside', b'x', level=2, path=bn + b'/')), b'x', b'x'),
              arc.Member(dict(H.simple_member(b'deep', b'x', level=1, path=bn + b'/sub\x01/')), b'x', b'x')]
        archives.append(('error-path parent-is-a-file %02x' % hb, arc.archive(ms)))
    # members that fail: a wrong recorded CRC, data shorter than recorded, a method nothing decodes - with hostile bytes in their
    # names and paths, so that every "this one went wrong" line of every mode carries them
    damaged = []
    for fld in ('name', 'path'):
        for lvl in (0, 1, 2, 3):
            ms = []
            for k, x in enumerate((0x1b, 0x07, 0x9b, 0x7f, 0x01, 0xe9, 0xff, 0x0a, 0x0d, 0x08)):
                g = member(lvl, fld, x, k, rnd)
                kind = k % 3
                if kind == 0:
                    ms.append(arc.Member(dict(g.m, crc=g.m['crc'] ^ 0x5a5a), g.packed, g.plain))
                elif kind == 1:
                    ms.append(arc.Member(dict(g.m, data=g.m['data'][:len(g.m['data']) // 2]), g.packed, g.plain))
                else:
                    ms.append(arc.Member(dict(g.m, method=b'-lh3-'), g.packed, g.plain))
            archives.append(('damaged-%s L%d' % (fld, lvl), arc.archive(ms)))
            damaged.append(archives[-1][0])
    jobs = []
    n = 0
    for desc, A in archives:
        modes = ['t', 'tq', 'x', 'xf', 'xq', 'xq1', 'e', 'ef', 'xv', 'pq', 'xn', 'v'] if desc.startswith('damaged-') else ['l', 'lv', 'v', 'vv', 't', 'xn', 'pq'] if desc.startswith('os-type') else MODES + ['x', 'e'] if desc.startswith('percent') else MODES if (ctx.tier == 'thorough' or desc.startswith(('error-path', 'long-'))) else rnd.sample(MODES, 8) + ['v', 'vv']
        if desc.startswith(('name', 'path', 'long-name', 'long-path')):
            modes = list(modes) + ['x', 'e']
        for mode in sorted(set(modes)):
            if mode[0] == 'p' and 'n' not in mode and desc.startswith('method'):
                # with a planted method byte the member may be run through a real decompressor: what 'p' then dumps is file
                # data, which the property excludes; the header lines of 'p' are covered by the other fields
                continue
            n += 1
            jobs.append((n, A, mode, base, exe, so, desc))
    with ThreadPoolExecutor(max_workers=16) as ex:
        for n, A, mode, rc, bad, nbytes, desc, denied in ex.map(one, jobs):
            ctx.evaluated(A + mode.encode(), nontrivial=nbytes > 0)
            ctx.count('output_bytes_checked', nbytes)
            ctx.hist('runs_by_mode', mode.split('=')[0])
            if rc < 0 and rc != -999:
                ctx.violation('C18-abnormal-exit:' + mode[0], "'lha %s' on %s ended by signal %d" % (mode, desc, -rc), A)
            for stream, i, c, around in bad:
                fld = desc.split()[0]
                if i == -1:
                    ctx.violation('C18-name-not-verbatim:%s' % mode.split('=')[0], "'lha %s' on the %s archive: %s (printable text with printf conversions in it must be "
                                  'printed as it is)' % (mode, desc, around.decode('latin1')), A)
                    continue
                ctx.violation('C18-raw-byte:%s:%s:%s' % (mode.split('=')[0], fld, stream),
                              "'lha %s' wrote byte 0x%02x at offset %d of %s (archive: %s); context %r" % (mode, c, i, stream, desc, around), A)
    ctx.cov['fields'] = fields
    ctx.cov['byte_values_planted_per_field'] = {f: len([1 for (ff, x) in planted if ff == f]) for f in fields}
    ctx.cov['exhaustive'] = all(v == 255 for v in ctx.cov['byte_values_planted_per_field'].values())
    ctx.cov['rule'] = ('one archive per (field, level, group of 16 byte values); every byte 0x01..0xFF is planted in every field; all 256 values of the OS-type byte at levels 1-3; printable names / paths / targets / owner names containing printf conversions (must come out verbatim, the tool must not die); strings of 200..1000 bytes with a hostile byte last / first / at 254..256; each archive is '
                       'run through the listed commands as user nobody under the fs guard; distinct by archive+command; non-trivial = the run produced output')
    ctx.sample({'archive': archives[0][0], 'hex': archives[0][1].hex()[:160], 'modes': MODES})
    shutil.rmtree(base, ignore_errors=True)


def replay(ctx, path):
    run(ctx)
