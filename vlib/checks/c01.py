"""C01 - lh4/lh5/lh6/lh7/lhx/lk7: decode(serialise(commands)) == LZ77-expand(commands).
Events: bytes returned by lha_decoder_read (asan build).  Oracle: lz.expand with a space-filled window."""
import random, hashlib
from .. import build, core, dech
from ..lhamodel import lhnew
from ..lhamodel.lz import expand

LEVEL = 'exploration'
REQUIRED = ['skip0', 'skip1', 'skip2', 'skip3', 'temp-n>3', 'temp-single', 'len-unary',
            'run0', 'run1', 'run2', 'run-mixed', 'code-single-lit', 'code-single-copy', 'code-len16', 'code-two',
            'code-n-max', 'off-single', 'off-single-unused', 'off-multi', 'block-1', 'block-65535', 'multi-block',
            'dist-1', 'dist-window', 'dist-window-1', 'dist-prefill', 'overlap', 'len-3', 'len-max', 'ring-wrap']


def directed(method, rnd):
    """Corner cases that are always run, whatever the seed."""
    K = lhnew.Knobs
    OB, window, NC, lhark = lhnew.METHODS[method]
    mx = lhnew.max_copy(method)
    out = []
    out.append(('one-literal', [('L', 0x41)], K()))
    out.append(('only-copies-one-code', [('C', window, 3)] * 5, K()))
    out.append(('copy-len-max-dist-1', [('L', 7), ('C', 1, mx)], K()))
    out.append(('copy-into-prefill', [('C', window, mx), ('C', 1, 3), ('L', 1), ('C', window - 1, 3)], K()))
    for s in range(4):
        # tokens 0 and (len+2) only -> temp symbols {0, 3.., } with a hole right after entry 3
        cm = [('L', 0), ('L', 255), ('L', 255), ('L', 0), ('L', 9), ('L', 9), ('L', 9), ('L', 9)]
        out.append(('skip-%d' % s, cm, K(skip=s, run_pref=0, force_multi_temp=True, extra_syms=0)))
    out.append(('tiny-blocks', lhnew.gen_cmds(rnd, method, 40), K(block_sizes=[1])))
    out.append(('block-2', lhnew.gen_cmds(rnd, method, 41), K(block_sizes=[2, 1, 3])))
    out.append(('block-65535', [('L', i & 0xff) for i in range(65535)] + [('C', 1, 3)], K(block_sizes=[65535])))
    out.append(('16bit-codes', [('L', i) for i in range(40)] * 3, K(skew=True, extra_syms=0)))
    out.append(('code-n-max', [('L', 1), ('C', 2, mx), ('L', 2)], K(code_pad=NC)))
    out.append(('temp-n-max', [('L', i) for i in range(30)], K(temp_pad=31, force_multi_temp=True)))
    out.append(('off-n-max', [('L', 1), ('C', 1, 3), ('C', 2, 4), ('C', 5, 3)], K(off_pad=(1 << OB) - 1)))
    for pref in (0, 1, 2):
        out.append(('run-class-%d' % pref, [('L', 0), ('L', 255), ('C', 1, mx), ('L', 128)], K(run_pref=pref, extra_syms=0)))
    out.append(('off-single-max-unused', [('L', 3), ('L', 4)], K(off_single=(1 << OB) - 1)))
    out.append(('all-distance-widths', [('L', 5)] + [('C', min(window, 1 << b), 3) for b in range(0, window.bit_length())]
                + [('C', max(1, min(window, (1 << b) - 1)), 4) for b in range(1, window.bit_length() + 1)], K()))
    # every distance the dictionary permits, once each (after enough output exists so that most are not pre-fill reads)
    if window <= 8192 or rnd.random() < 2:
        step = 1 if window <= 65536 else 7
        warm = [('L', (i * 37) & 0xff) for i in range(300)] + [('C', 300, 256)] * (min(window, 70000) // 256 + 1)
        out.append(('every-distance', warm + [('C', d, 3 + (d % 5)) for d in range(1, window + 1, step)], K()))
    if lhark:
        out.append(('lk7-all-lengths', [('L', 1)] + [('C', 1, n) for n in range(3, 515)], K()))
        out.append(('lk7-all-distance-codes', [('L', 1)] + [('C', d + 1, 3) for d in
                                                           sorted(set([0, 1, 2, 3] + [x for nlb in range(1, 15) for k in (2, 3)
                                                                                      for x in ((k << nlb), (k << nlb) + (1 << nlb) - 1)]))], K()))
    else:
        out.append(('all-lengths', [('L', 1)] + [('C', 1, n) for n in range(3, 257)], K()))
    return out


def shard(method, seed, nstreams, tier, do_directed):
    rnd = random.Random(seed)
    sh = core.Shard()
    exe = dech_exe()
    cases, expect = [], []

    def add(tag, cmds, knobs):
        feat = set()
        stream, marks = lhnew.serialise(method, cmds, rnd, knobs, feat)
        exp = expand(cmds)
        feat |= lhnew.classify(method, cmds)
        if any(c[0] == 'C' for c in cmds):
            feat.add('has-copy')
        sched = [rnd.choice([1, 3, 64, 4096, 70000])] if rnd.random() < 0.5 else []
        c = dech.Case(method, stream, len(exp), sched=sched, in_chunk=rnd.choice([0, 0, 0, 1, 3, 7]), meta=(tag, feat, len(cmds)))
        cases.append(c)
        expect.append(exp)

    if do_directed:
        for tag, cmds, knobs in directed(method, rnd):
            add('directed:' + tag, cmds, knobs)
        if method == '-lhx-':
            # ring wrap: > 1 MiB of output, cheap in commands
            cm = lhnew.gen_cmds(rnd, method, 200) + [('C', rnd.choice([1, 7, 300, 524288]), 256) for _ in range(4300)] \
                + lhnew.gen_cmds(rnd, method, 300)
            add('directed:ring-wrap', cm, lhnew.Knobs())
        elif method in ('-lh5-', '-lh6-', '-lk7-'):
            cm = lhnew.gen_cmds(rnd, method, 100) + [('C', rnd.choice([1, 9, lhnew.METHODS[method][1]]), 256) for _ in range(300)] \
                + lhnew.gen_cmds(rnd, method, 200)
            add('directed:ring-wrap', cm, lhnew.Knobs())
    for i in range(nstreams):
        n = rnd.choice([1, 2, 5, 50, 400, 2000] if tier == 'quick' else [1, 2, 5, 50, 400, 2000, 9000])
        cmds = lhnew.gen_cmds(rnd, method, n)
        knobs = lhnew.Knobs()
        if rnd.random() < 0.15:
            knobs.block_sizes = [rnd.choice([1, 2, 3])]
        if rnd.random() < 0.1:
            knobs.skew = True
        add('random', cmds, knobs)

    def on_crash(case, cls, key, err):
        sh.violation('C01-crash:' + key, 'decoding a well-formed %s stream (%s) ended in %s: %s'
                     % (method, case.meta[0], cls, err[-1200:]), case.stream)

    res = dech.run_batch(exe, cases, sh, label='c01', on_crash=on_crash)
    for c, exp in zip(cases, expect):
        r = res.get(c.id)
        tag, feat, ncmds = c.meta
        nontrivial = 'has-copy' in feat and bool({'code-two', 'code-len16', 'run0', 'run1', 'run2', 'temp-single', 'skip0',
                                                  'skip1', 'skip2', 'skip3', 'temp-n<3'} & feat)
        sh.evaluated(c.stream, nontrivial=nontrivial)
        sh.count('commands', ncmds)
        sh.count('output_bytes', len(exp))
        for f in feat:
            sh.hist('features', f)
        sh.hist('streams_per_method', method)
        if r is None:
            continue
        if r.status != 0:
            sh.violation('C01-nodecoder:' + method, 'no decoder / init failure for %s' % method, c.stream)
            continue
        if r.out != exp:
            k = next((i for i in range(min(len(exp), len(r.out))) if exp[i] != r.out[i]), min(len(exp), len(r.out)))
            sh.violation('C01-mismatch:%s:%s' % (method, tag.split(':')[0] if tag == 'random' else tag),
                         '%s stream (%s, %d commands, features %s): decoded %d bytes, expected %d, first difference at %d'
                         % (method, tag, ncmds, sorted(feat), len(r.out), len(exp), k), c.stream)
        if len(sh.samples) < 2 and ncmds <= 6:
            sh.sample({'method': method, 'tag': tag, 'stream_hex': c.stream.hex()[:160], 'expected_hex': exp.hex()[:80],
                       'features': sorted(feat)})
    return sh


_EXE = None


def dech_exe():
    return _EXE


def run(ctx):
    global _EXE
    b = build.Builder()
    _EXE = b.harness('asan', 'decode', ['h_decode.c'])
    methods = list(lhnew.METHODS)
    per = 400 if ctx.tier == 'quick' else 4000
    reps = 1 if ctx.tier == 'quick' else 5
    args = []
    for mi, m in enumerate(methods):
        for r in range(reps):
            args.append((m, ctx.seed * 7919 + mi * 101 + r, per, ctx.tier, r == 0))
            if ctx.tier == 'quick':
                args.append((m, ctx.seed * 7919 + mi * 101 + 50, per, ctx.tier, False))
    core.run_shards(ctx, shard, args)
    feats = ctx.cov.get('features', {})
    missing = [f for f in REQUIRED if f not in feats]
    ctx.cov['required_features_missing'] = missing
    if missing:
        raise core.HarnessFailure('workload did not reach required stream shapes: %s' % missing)
    ctx.cov['rule'] = ('streams = serialise(method, commands, block partition, table encodings) from vlib/lhamodel/lhnew.py; '
                       'directed corner list per method + seeded random; distinct by stream bytes; non-trivial = has at '
                       'least one copy command and at least one explicit (non-single) code table')
    ctx.assumptions += ['well-formed = Kraft-complete tables or the explicit single-symbol form, distances within the '
                        "method's dictionary size (lh4 4K, lh5 8K, lh6 32K, lh7 64K, lhx 512K, lk7 64K)",
                        'the serialiser is my reading of the format; it is validated by lhasa agreeing on it and by lhasa '
                        "agreeing with real encoders' output in the repository's own suite"]


def replay(ctx, path):
    """Replay file = raw stream; method unknown -> try all and print what each decodes to."""
    global _EXE
    b = build.Builder()
    _EXE = b.harness('asan', 'decode', ['h_decode.c'])
    data = open(path, 'rb').read()
    cases = [dech.Case(m, data, 1 << 20) for m in lhnew.METHODS]
    sh = core.Shard()
    res = dech.run_batch(_EXE, cases, sh, on_crash=lambda c, cls, key, err: print('CRASH', c.method, key))
    for c in cases:
        r = res.get(c.id)
        if r:
            print(c.method, 'decoded', r.total, 'bytes', r.out[:32].hex())
    ctx.cov['evaluations'] = len(cases)
    ctx.cov['distinct_nontrivial'] = 2
