"""C13 - every call returns; work and heap are bounded by the bytes present and the declared size.
"Eventually returns" cannot be decided by a finite run; it is restated as bounded progress:
  * callback stream kinds: each operation finishes within  2*len(A) + 64*(members+1) + 4*bytes_out + 256  stream-callback
    invocations (counted by the harness's own read/skip callbacks; a hard stop at 8x that turns a hang into a verdict),
  * bytes delivered for a member <= its declared length,
  * peak live heap obtained by library code <= 8 MiB + 2*len(A)  (allocator monitor),
  * FILE kinds and the CLI (stdio hides the calls): completion inside a generous wall-clock watchdog; a watchdog firing is
    re-run once and only then reported (keyed), never silently dropped."""
import os, random, struct, shutil, subprocess, resource, signal
from concurrent.futures import ThreadPoolExecutor
from .. import build, core, rdh, arc, cli, streams
from ..lhamodel import header as H
from . import c15

LEVEL = 'exploration'
_EXE = None
MiB = 1 << 20
PATTERNS = [('list', 0), ('read1', 1), ('readall', 2), ('check', 3)]


def budget_for(alen, members, bytes_out):
    return 2 * alen + 64 * (members + 1) + 4 * bytes_out + 256


def extreme_archives(rnd):
    """(tag, bytes)"""
    out = []
    def l3(hlen_field, total=64):
        h = bytearray(H.build_header(H.simple_member(b'x', b'', level=3))[0])
        h[24:28] = struct.pack('<I', hlen_field & 0xffffffff)
        return bytes(h) + bytes(total)
    for v in (0, 31, 32, 2 ** 20, 2 ** 20 + 1, 2 ** 24, 2 ** 26, 2 ** 28, 2 ** 32 - 1, 2 ** 31):
        out.append(('L3-length=%d' % v, l3(v)))
    out.append(('L3-length=2^20-present', l3(2 ** 20, total=2 ** 20 + 100)))
    # level-1 chain of 65535-byte extended headers: absent, and present (3 of them)
    m = H.simple_member(b'y', b'data', level=1)
    hdr = bytearray(H.build_header(m)[0])
    base_len = 2 + hdr[0]
    h2 = bytearray(hdr[:base_len])
    h2[base_len - 2:base_len] = struct.pack('<H', 65535)
    h2[7:11] = struct.pack('<I', 3 * 65535 + 4)
    h2[1] = sum(h2[2:base_len]) & 0xff
    out.append(('L1-ext-65535-absent', bytes(h2) + b'zz'))
    chain = b''
    for k in range(3):
        chain += bytes([0x7e]) + bytes(65535 - 3) + struct.pack('<H', 65535 if k < 2 else 0)
    out.append(('L1-ext-65535-x3-present', bytes(h2) + chain + b'data' + b'\0'))
    # level-2 header claiming 65535 bytes on a 40-byte input
    h = bytearray(H.build_header(H.simple_member(b'z', b'', level=2))[0])
    h[0:2] = struct.pack('<H', 65535)
    out.append(('L2-length=65535-on-40-bytes', bytes(h)[:40]))
    # 4 GiB sizes on tiny inputs (not pm1: that method is implicitly endless and would legitimately decode 4 GiB)
    for meth in (b'-lh0-', b'-lh5-', b'-lz5-', b'-lh1-', b'-pm2-', b'-lzs-'):
        for lvl in (0, 1, 2, 3):
            mm = H.simple_member(b'big', b'', level=lvl, method=meth)
            mm['size'] = 2 ** 32 - 1
            mm['packed_field'] = 2 ** 32 - 1
            mm['data'] = bytes(rnd.randrange(256) for _ in range(rnd.choice([0, 5, 200])))
            out.append(('4GiB-declared-%s-L%d' % (meth.decode(), lvl), H.build(mm)))
    # no header within 256 KiB, and one around the limit
    junk = bytes(rnd.choice(bytes(b for b in range(256) if b not in (0x2d, 0x4c))) for _ in range(1000)) * 270
    good = H.build(H.simple_member(b'late', b'hello', level=2)) + b'\0'
    out.append(('no-header-270K', junk))
    for d in (-24, -1, 0, 1, 24):
        out.append(('header-at-256K%+d' % d, junk[:256 * 1024 + d] + good))
    # self-referential streams: long copies of copies
    from ..lhamodel import lhnew
    cmds = [('L', 65)] + [('C', 1, 256)] * 3000
    s, _ = lhnew.serialise('-lh5-', cmds, rnd)
    mm = H.simple_member(b'selfref', b'', level=2, method=b'-lh5-')
    mm['size'] = 1 + 256 * 3000
    mm['data'] = s
    mm['crc'] = 0
    out.append(('self-referential-lh5', H.build(mm) + b'\0'))
    # pm1: empty / truncated data with 1 MiB declared (endless zero continuation, capped by the declared length)
    for data in (b'', b'\x00', b'\xff\xff', bytes(rnd.randrange(256) for _ in range(20))):
        mm = H.simple_member(b'pm1', b'', level=0, method=b'-pm1-')
        mm['size'] = MiB
        mm['data'] = data
        out.append(('pm1-endless-1MiB-%dB' % len(data), H.build(mm) + b'\0'))
    # many members: whatever a member costs must be given back before the next one (heap stays below the constant however many
    # members there are).  40 members per archive for every method with a large decoder state, under a generic and the Mac OS
    # type (which wraps the decoder in the MacBinary probe), with intact, empty and cut-short compressed data.
    for meth in (b'-lhx-', b'-lh7-', b'-lh6-', b'-lh5-', b'-pm1-', b'-pm2-', b'-lh1-', b'-lz5-'):
        for os_t in (ord('U'), ord('m')):
            for shape in ('empty', 'short', 'intact'):
                ms = b''
                for k in range(40):
                    mm = H.simple_member(b'm%02d' % k, b'', level=1 + k % 2, method=meth, os_type=os_t)
                    if shape == 'intact':
                        mname = '-' + meth.decode()[1:4] + '-'
                        packed, plain, _ = streams.small_plain_stream(rnd, mname, 200)
                        mm = H.simple_member(b'm%02d' % k, plain, level=1 + k % 2, method=meth, os_type=os_t, packed=packed)
                    else:
                        mm['size'] = 200 + k
                        mm['data'] = b'' if shape == 'empty' else bytes(rnd.randrange(256) for _ in range(3))
                    ms += H.build(mm)
                out.append(('many-members-%s-%s-%s' % (meth.decode(), chr(os_t), shape), ms + b'\0'))
    return out


def shard(seed, items, tier):
    """items: (tag, archive bytes, nmembers_hint)"""
    sh = core.Shard()
    rnd = random.Random(seed)
    cases = []
    for tag, A, nm in items:
        for kind in (0, 1, 2, 3):
            for pname, parg in PATTERNS:
                if len(A) > 100000 and (kind, pname) not in ((2, 'list'), (3, 'list'), (0, 'check'), (1, 'readall'), (2, 'check'), (3, 'readall')):
                    continue
                hard = 4 * budget_for(len(A), nm + 4, 2 * MiB if ('pm1-endless' in tag or 'self-referential' in tag) else 300000)
                cases.append(rdh.RCase(A, [(rdh.OP_WALK, parg), rdh.OP_NEXT, rdh.OP_NEXT], kind=kind, budget=hard, meta=(tag, pname)))

    # read errors: the stream's read function reports an error (-1) from some offset on (an I/O fault, not a truncation).  Every call
    # must come back; the step budget is the same as for a truncation at that offset.
    for tag, A, nm in items:
        if tag.startswith('generated-') and '@cut' not in tag:
            offs = range(0, len(A), 1 if tier == 'thorough' else 5)
            for eo in offs:
                for kind in (2, 3):
                    pname, parg = PATTERNS[(eo + kind) % len(PATTERNS)]
                    cases.append(rdh.RCase(A, [(rdh.OP_WALK, parg), (rdh.OP_NEXT, 0), (rdh.OP_NEXT, 0), (rdh.OP_NEXT, 0)], kind=kind, flags=rdh.F_FULLDATA | ((eo + 1) << 8),
                                           budget=8 * budget_for(len(A), nm, len(A) * 4), meta=(tag + '@readerr%d' % eo, pname)))

    def on_crash(case, cls, key, err):
        if cls == 'hang':
            sh.violation('C13-watchdog:%s:%s:%s' % (rdh.KIND_NAMES[case.kind], case.meta[1], case.meta[0].split('@')[0]),
                         'no completion inside the wall-clock watchdog: %s %s on %s' % (rdh.KIND_NAMES[case.kind], case.meta[1], case.meta[0]), case.archive)
        else:
            sh.violation('C13-crash:' + key, '%s on %s: %s' % (cls, case.meta[0], err[-600:]), case.archive)
    res = rdh.run_batch(_EXE, cases, sh, label='c13', on_crash=on_crash, timeout=600, env_extra={'VERIF_CASE_CPU_S': '15'})
    for c in cases:
        ev = res.get(c.id)
        tag, pname = c.meta
        sh.evaluated(c.archive[:4096] + repr((len(c.archive), c.kind, pname, tag)).encode(), nontrivial=len(c.archive) > 22)
        sh.hist('kind_x_operation', '%s/%s' % (rdh.KIND_NAMES[c.kind], pname))
        if ev is None:
            continue
        group = tag.split('@')[0]
        if rdh.outcap_hit(ev):
            # a member declaring more than 64 MiB that really decodes that far (-pm1- continues on zero bits): bounded, proportional
            # work, abandoned by the harness at the cap; nothing further is concluded from this case
            sh.count('abandoned_at_output_cap_work_proportional_so_far')
            continue
        if rdh.budget_hit(ev):
            b = [d for k, d in ev if k == 'budget'][0]
            sh.violation('C13-no-return:%s:%s:%s' % (rdh.KIND_NAMES[c.kind], pname, 'truncated' if '@cut' in tag else 'read-error' if '@readerr' in tag else group),
                         '%s on %s via %s did not return: %d stream reads and %d skips issued for an input of %d bytes (hard stop)'
                         % (pname, tag, rdh.KIND_NAMES[c.kind], b['reads'], b['skips'], len(c.archive)), c.archive)
            continue
        members = sum(1 for k, d in ev if k == 'next' and d is not None)
        bytes_out = sum(d['n'] for k, d in ev if k in ('read', 'readall'))
        steps = [d for k, d in ev if k == 'steps']
        total_steps = sum(d['reads'] + d['skips'] for d in steps)
        if True:      # FILE-backed kinds are counted too (stdio calls made by library code, see allocmon.c)
            bud = budget_for(len(c.archive), members, bytes_out)
            ratio = total_steps / bud
            sh.cov['max_steps_over_budget_permille'] = max(sh.cov.get('max_steps_over_budget_permille', 0), int(ratio * 1000))
            if total_steps > bud:
                sh.violation('C13-step-budget:%s:%s:%s' % (rdh.KIND_NAMES[c.kind], pname, group),
                             '%s on %s via %s used %d stream callbacks; budget 2*%d + 64*(%d+1) + 4*%d + 256 = %d'
                             % (pname, tag, rdh.KIND_NAMES[c.kind], total_steps, len(c.archive), members, bytes_out, bud), c.archive)
        # bytes delivered for a member never exceed its declared length
        cur = None
        for k, d in ev:
            if k == 'next':
                cur = d
            elif k in ('read', 'readall') and cur is not None and d['n'] > cur['size']:
                sh.violation('C13-more-than-declared:' + group, 'member declared %d bytes, %d delivered' % (cur['size'], d['n']), c.archive)
        al = [d for k, d in ev if k == 'alloc']
        if al:
            peak = al[0]['peak']
            sh.cov['max_peak_heap'] = max(sh.cov.get('max_peak_heap', 0), peak)
            if peak > 8 * MiB + 2 * len(c.archive):
                sh.violation('C13-heap:%s' % group, 'peak live heap %d bytes > 8 MiB + 2*%d for %s (%s via %s)'
                             % (peak, len(c.archive), tag, pname, rdh.KIND_NAMES[c.kind]), c.archive)
        # after the end every further request reports end
        nx = [d for k, d in ev if k == 'next']
        if len(nx) >= 3 and not (nx[-1] is None and nx[-2] is None and nx[-3] is None):
            sh.violation('C13-end-not-sticky:' + group, 'a header was returned after end of archive had been reported', c.archive)
    if items:
        sh.sample({'input': items[0][0], 'len': len(items[0][1]), 'operations': [p[0] for p in PATTERNS], 'stream_kinds': rdh.KIND_NAMES})
    return sh


BIG = 64 * MiB


def declared_big(ctx, items):
    """Tags of inputs in which some member declares more than 64 MiB of output (found with a list-only pass of the harness).
    'lha t/p/x' on such an input may legitimately run for minutes (-pm1- really produces what is declared), so a wall-clock
    watchdog firing there is INCONCLUSIVE and is counted as such, not reported; listing such an input must still return."""
    cases = [rdh.RCase(A, [(rdh.OP_WALK, 0)], kind=2, meta=tag) for tag, A, nm in items]
    res = rdh.run_batch(_EXE, cases, ctx, label='c13sz')
    big = set()
    for c in cases:
        ev = res.get(c.id) or []
        if any(k == 'next' and d is not None and d['size'] > BIG for k, d in ev):
            big.add(c.meta)
    ctx.count('cli_inputs_declaring_more_than_64MiB', len(big))
    return big


def cli_part(ctx, exe, items, big=frozenset()):
    root = os.path.join(build.scratch_root(), 'c13cli')
    os.makedirs(root, exist_ok=True)

    hangs = [0]
    inconc_said = [0]

    def one(it):
        i, (tag, A, nm) = it
        if hangs[0] >= 3:
            return tag, A, []           # non-termination is established; do not spend hours confirming it again
        p = os.path.join(root, 'a%d.lzh' % i)
        open(p, 'wb').write(A)
        out = []
        for mode in ('l', 't', 'pq'):
            for via in ('file', 'pipe'):
                if len(A) > 100000 and mode != 'l':
                    continue
                args, stdin = ([mode, p], b'') if via == 'file' else ([mode, '-'], A)
                rc, so, se = cli.run_lha(exe, args, root, stdin=stdin, timeout=20 if not (mode != 'l' and tag in big) else 5)
                if rc == -999 and mode != 'l' and tag in big:
                    pass            # minutes of legitimate decoding: inconclusive at once, no second attempt
                elif rc == -999:      # watchdog: inconclusive until it repeats
                    rc, so, se = cli.run_lha(exe, args, root, stdin=stdin, timeout=60)
                    if rc == -999 and not (mode != 'l' and tag in big):
                        hangs[0] += 1
                out.append((mode, via, rc, len(so)))
        os.unlink(p)
        return tag, A, out
    with ThreadPoolExecutor(max_workers=16) as ex:
        for tag, A, out in ex.map(one, list(enumerate(items))):
            for mode, via, rc, n in out:
                ctx.count('cli_runs')
                ctx.cov['evaluations'] += 1
                if rc == -999 and mode != 'l' and tag in big:
                    ctx.count('inconclusive_cli_watchdog_on_input_declaring_more_than_64MiB')
                    if not inconc_said[0]:
                        inconc_said[0] = 1
                        ctx.inconc("'lha %s' on %s declares more than 64 MiB of output and was stopped after 5 s: bounded but long decoding, not judged "
                                   '(the harness judges the same input up to its 64 MiB output cap)' % (mode, tag))
                elif rc == -999:
                    ctx.violation('C13-cli-no-return:%s:%s:%s' % (mode, via, tag.split('@')[0]), "'lha %s' on %s via %s did not finish within the watchdog twice"
                                  % (mode, tag, via), A)
    shutil.rmtree(root, ignore_errors=True)


OUT_CAP = 32 * MiB
ANSWERS = [b'', b'y', b'n', b'\n', b'\n\n\n', b'zzz\n' * 5, b'y\n', b'n\n', b'a\n', b's\n', b'q', b'\x00\xff\n', b'yes', b' ' * 300, b'y\n' * 3 + b'x']


def cli_extract_part(ctx, exe, so, items, big=frozenset()):
    """Extraction commands return too - in particular at the overwrite prompt, whatever standard input holds (nothing, an
    unfinished line, junk).  Each archive is extracted twice into the same directory as user nobody under the fs guard; the
    second run finds every file in place.  Output goes to files under RLIMIT_FSIZE, so a tool that keeps writing is
    stopped by SIGXFSZ (verdict: unbounded output) instead of filling memory; the decisive bound is on bytes written:
      (headers possible in A + input lines + 2) * (len(A) + 200)."""
    base = os.path.join(build.scratch_root(), 'c13x')
    os.makedirs(base, exist_ok=True)
    os.chmod(base, 0o755)

    def launch(root, args, stdin, timeout):
        fo = open(os.path.join(os.path.dirname(root), 'out.' + os.path.basename(root)), 'wb+')
        e = {'PATH': '/usr/bin:/bin', 'TZ': 'UTC', 'LC_ALL': 'C', 'LD_PRELOAD': so, 'VERIF_FS_ROOT': root,
             'VERIF_FS_LOG': os.path.join(os.path.dirname(root), 'fslog.' + os.path.basename(root))}
        open(e['VERIF_FS_LOG'], 'w').close()
        os.chmod(e['VERIF_FS_LOG'], 0o666)

        def pre():
            resource.setrlimit(resource.RLIMIT_FSIZE, (OUT_CAP, OUT_CAP))
        try:
            r = subprocess.run(cli.NOBODY + [exe] + args, cwd=root, input=stdin, stdout=fo, stderr=subprocess.STDOUT, env=e,
                               timeout=timeout, preexec_fn=pre)
            rc = r.returncode
        except subprocess.TimeoutExpired:
            rc = -999
        n = fo.seek(0, 2)
        fo.close()
        os.unlink(fo.name)
        if rc == -signal.SIGXFSZ and os.path.getsize(e['VERIF_FS_LOG']) >= OUT_CAP - 65536:
            rc = -998           # the file that hit the size limit is the guard's log of filesystem calls: hundreds of thousands of them
        os.unlink(e['VERIF_FS_LOG'])
        return rc, n

    hangs = {}

    def one(it):
        i, (tag, A, nm) = it
        root = os.path.join(base, 'r%d' % i)
        cli.mkdir_for_nobody(root)
        open(os.path.join(root, 'a.lzh'), 'wb').write(A)
        os.chmod(os.path.join(root, 'a.lzh'), 0o644)
        out = []
        # option shapes as a user might spell them: target directories with a trailing, doubled or leading-dot separator (the
        # destination name is built by joining strings, and the parent-directory walk sees whatever results), absolute ones
        mode = ('x', 'e', 'xi', 'xw=out/', 'xw=o//deep', 'ew=./p/', 'xiw=q///', 'xw=.', 'xw=' + root + '/abs//sub/', 'xqw=a/./b', 'xvw=/' + root)[i % 11]
        ans2 = ANSWERS[i % len(ANSWERS)]
        if tag.startswith('collision-'):
            mode = ('xf', 'xq', 'ef', 'xfw=out', 'xq1')[i % 5]
        label = mode.replace(root, '<root>')
        for rnd_no, stdin in ((1, b''), (2, ans2), (3, ANSWERS[(i * 7 + 3) % len(ANSWERS)])):
            if hangs.get(label, 0) >= 4:
                break           # this option shape has hung (twice each) on four inputs already: reported, no need to wait out hundreds more
            rc, n = launch(root, [mode, 'a.lzh'], stdin, 20 if tag not in big else 5)
            if rc == -999 and tag not in big:
                rc, n = launch(root, [mode, 'a.lzh'], stdin, 60)
            bound = (len(A) // 20 + stdin.count(b'\n') + 3) * (len(A) + 200)
            out.append((label, rnd_no, stdin, rc, n, bound))
            if rc == -999 and tag not in big:
                hangs[label] = hangs.get(label, 0) + 1
            if rc in (-999, -998) or rc == -signal.SIGXFSZ:
                break
        shutil.rmtree(root, ignore_errors=True)
        return tag, A, out
    with ThreadPoolExecutor(max_workers=16) as ex:
        for tag, A, out in ex.map(one, list(enumerate(items))):
            for mode, rnd_no, stdin, rc, n, bound in out:
                ctx.count('cli_extract_runs')
                ctx.hist('cli_extract_stdin', repr(stdin[:8]))
                if rnd_no > 1:
                    ctx.count('cli_extract_runs_over_existing_files')
                ctx.cov['evaluations'] += 1
                base_tag = tag.split('@')[0].split('-')[0]
                if rc == -999 and tag in big:
                    ctx.count('inconclusive_cli_watchdog_on_input_declaring_more_than_64MiB')
                elif rc == -999:
                    ctx.violation('C13-cli-no-return:%s:run%d:%s' % (mode, min(rnd_no, 2), base_tag), "'lha %s' on %s (run %d into the same directory, stdin %r) did not "
                                  'finish within the watchdog twice' % (mode, tag, rnd_no, stdin[:20]), A)
                elif rc == -998:
                    ctx.violation('C13-cli-unbounded-filesystem-calls:%s:run%d:%s' % (mode, min(rnd_no, 2), base_tag), "'lha %s' on %s (run %d into the same "
                                  'directory, stdin %r) made filesystem calls until their log reached %d bytes (an archive of %d bytes)'
                                  % (mode, tag, rnd_no, stdin[:20], OUT_CAP, len(A)), A)
                elif rc == -signal.SIGXFSZ and n < OUT_CAP - 65536:
                    ctx.count('extractions_stopped_by_the_file_size_limit_on_an_extracted_file')     # a big member, not messages
                elif rc == -signal.SIGXFSZ or n > bound:
                    ctx.violation('C13-cli-unbounded-output:%s:run%d:%s' % (mode, min(rnd_no, 2), base_tag), "'lha %s' on %s (run %d into the same directory, stdin %r) wrote "
                                  '%d bytes of messages (bound %d; stopped at %d)' % (mode, tag, rnd_no, stdin[:20], n, bound, OUT_CAP), A)
    shutil.rmtree(base, ignore_errors=True)


def run(ctx):
    global _EXE
    b = build.Builder()
    _EXE = b.harness('asan', 'reader', ['h_reader.c'], wrap_alloc=True)
    exe_cli = b.cli('plain')
    rnd = random.Random(ctx.seed)
    items = []
    # every truncation offset of small generated multi-member archives covering all methods
    nbase = 8 if ctx.tier == 'quick' else 60
    for bi in range(nbase):
        ms = []
        for j, m in enumerate(rnd.sample(streams.ALL_METHODS, 4)):
            ms.append(arc.file_member(rnd, m, b'f%d' % j, size=rnd.choice([5, 40, 120]), level=(bi + j) % 4))
        if bi % 2:
            ms.insert(1, arc.dir_member(b'd%d/' % bi, level=bi % 4, perms=0o40755))
        A = arc.archive(ms)
        items.append(('generated-%d' % bi, A, len(ms)))
        step = 1 if (ctx.tier == 'thorough' or len(A) < 400) else 3
        for cut in range(0, len(A), step):
            items.append(('generated-%d@cut%d' % (bi, cut), A[:cut], len(ms)))
    # members of Mac archives inside an accepted MacBinary envelope (the reader strips the envelope and then has to drain the rest
    # of the inner stream): every cut offset, and inner streams that deliver the data fork but stop short of the declared length
    from ..lhamodel import fstree
    for mi, (df, rf) in enumerate(((300, 130), (10, 0), (0, 40), (200, 200))):
        name = b'mac%d.txt' % mi
        env = fstree.macbinary_wrap(name, bytes(rnd.randrange(256) for _ in range(df)), bytes(rnd.randrange(256) for _ in range(rf)), 1000000000)
        for meth in ('-lh0-', '-lh5-'):
            if meth == '-lh0-':
                packed = env
            else:
                from ..lhamodel import lhnew
                packed, _ = lhnew.serialise('-lh5-', [('L', b_) for b_ in env], rnd)
            mm = H.simple_member(name, env, level=1 + mi % 2, method=meth.encode(), os_type=ord('m'), mtime=1000000000, packed=packed)
            tail = H.build(H.simple_member(b'after', b'xyz', level=2))
            A = H.build(mm) + tail + b'\0'
            items.append(('macbinary-%d-%s' % (mi, meth), A, 2))
            step = 1 if (ctx.tier == 'thorough' or len(A) < 500) else 3
            for cut in range(0, len(A), step):
                items.append(('macbinary-%d-%s@cut%d' % (mi, meth, cut), A[:cut], 2))
            # declared longer than what the stored stream holds (an unpadded envelope), packed size honest
            for short in (1, 64, 127, 128, len(env) - 128 - df):
                if 0 < short < len(env) - 128 and meth == '-lh0-':
                    m2 = H.simple_member(name, env, level=1 + mi % 2, method=b'-lh0-', os_type=ord('m'), mtime=1000000000, packed=env[:len(env) - short])
                    items.append(('macbinary-%d-unpadded-%d' % (mi, short), H.build(m2) + tail + b'\0', 2))
    for tag, A in extreme_archives(rnd):
        items.append((tag, A, 1))
    # random and mutated
    for i in range(200 if ctx.tier == 'quick' else 4000):
        ms = c15.random_archive(rnd)
        A = bytearray(arc.archive(ms))
        for _ in range(rnd.choice([1, 3, 10])):
            A[rnd.randrange(len(A))] = rnd.randrange(256)
        items.append(('mutated-%d' % i, bytes(A), len(ms)))
        items.append(('random-%d' % i, b'\x20\x00-lh5-' + bytes(rnd.randrange(256) for _ in range(rnd.choice([20, 300, 3000]))), 1))
    nsh = 16
    core.run_shards(ctx, shard, [(ctx.seed * 19 + i, items[i::nsh], ctx.tier) for i in range(nsh)])
    cli_items = [it for it in items if '@cut' not in it[0]] + [it for it in items if '@cut' in it[0]][::(7 if ctx.tier == 'quick' else 2)]
    big = declared_big(ctx, [it for it in items if '@cut' not in it[0]])
    cli_part(ctx, exe_cli, cli_items, big)
    so = b.shared('fsmon', 'fsmon.c')
    whole = [it for it in items if it[0].startswith('generated-') and '@cut' not in it[0]]
    xitems = whole * (3 if ctx.tier == 'quick' else 5) + [it for it in items if '@cut' in it[0]][::(11 if ctx.tier == 'quick' else 3)] \
        + [it for it in items if it[0].startswith('mutated-')][:(60 if ctx.tier == 'quick' else 1500)]
    # entries that collide on disk (the same name stored twice, or as a directory and a file, a link and a directory, ...): the
    # tool meets things in place that it cannot replace (a directory where a file is to be created) - with the overwrite question
    # out of the way ('collision-': f / q modes) and with it asked and answered ('collisionp-': the ordinary mode cycle)
    from . import c20
    for name, members in c20.collision_archives(random.Random(ctx.seed * 5 + 2), ctx.tier):
        A = arc.archive(members)
        xitems.append(('collision-' + name.split(':', 1)[-1], A, len(members)))
        xitems.append(('collisionp-' + name.split(':', 1)[-1], A, len(members)))
    cli_extract_part(ctx, exe_cli, so, xitems, big)
    ctx.cov['rule'] = ('(input, stream kind, operation) triples: every truncation offset of generated multi-member archives (all methods), extreme '
                       'length declarations, inputs without a header up to and around the 256 KiB scan limit, a read callback that reports an error from every (5th) offset on, self-referential and pm1-endless '
                       'streams, mutated and random inputs x 4 stream kinds x {list, read 1 byte each, read to end, check}; distinct by input+kind+'
                       'operation; non-trivial = input longer than a minimal header; CLI: l/t/pq via file and pipe, and x/e/xi three times into the same directory '
                       '(the second and third run meet existing files: overwrite prompt with stdin empty, unfinished, junk, or answered) under a '
                       'wall-clock watchdog and a bound on bytes of messages written')
    ctx.assumptions += ['liveness restated as bounded progress with the explicit budgets above',
                        'FILE stream kinds and the CLI are guarded by wall-clock watchdogs only (stdio hides the stream calls)']


def replay(ctx, path):
    run(ctx)
