"""C08 - no archive bytes can make the library or tool touch invalid memory or abort.
Monitor: ASan + the memory-access subset of UBSan (fatal), hooks H1-H3, exit-status/signal classification.
Inputs: unstructured random bytes behind a planted signature, byte/bit/insert/delete/truncate mutations of corpus archives,
structure-aware hostile archives (inconsistent length fields with checksums/CRCs repaired so the parser goes deep), and
every truncation of those; driven through (a) the reader API with seeded call patterns over all stream kinds and (b) the
ASan-built command-line tool in list/test/print/extract modes (extraction as user nobody under the fs guard)."""
import os, random, glob, struct, shutil
from concurrent.futures import ThreadPoolExecutor
from .. import build, core, rdh, arc, cli, fsmon, dech, streams
from ..lhamodel import header as H
from ..lhamodel.crc16 import crc16
from . import c05, c15

LEVEL = 'exploration'
_EXE = None
CLI_MODES = ['l', 'lv', 'v', 'vv', 't', 'p', 'pq', 'xn', 'xf', 'xfi', 'xq', 'tq', 'xfw=o']


def repair(b, lvl):
    """recompute level-0/1 checksum so that a structural mutation is not simply rejected by the checksum"""
    if lvl in (0, 1) and len(b) > 2:
        hl = b[0]
        if 2 + hl <= len(b):
            b[1] = sum(b[2:2 + hl]) & 0xff
    return b


def hostile(rnd):
    """one structurally hostile archive"""
    m = c05.gen(rnd)
    lvl = m['level']
    if rnd.random() < 0.3:
        m['size'] = rnd.choice([2 ** 32 - 1, 2 ** 31, 0])
    if lvl and m.get('exts') and rnd.random() < 0.25:
        # the same extended header type more than once (replacement of strings the header already owns)
        for _ in range(rnd.choice([1, 2, 3])):
            t, d = rnd.choice(m['exts'])
            m['exts'].insert(rnd.randrange(len(m['exts']) + 1), (t, d[:rnd.randrange(len(d) + 1)] if rnd.random() < 0.5 else d + b'x' * rnd.randrange(4)))
    if rnd.random() < 0.2 and lvl:
        m['os'] = ord('m')                    # MacBinary look-ahead
        m['data'] = bytes(rnd.choice([0, 0, 1, rnd.randrange(256)]) for _ in range(rnd.choice([127, 128, 129, 300])))
        m['size'] = rnd.choice([len(m['data']), 128, 256, 384])
        m['method'] = b'-lh0-'
    if lvl == 0 and rnd.random() < 0.35:
        # level-0 extended areas cut at every length around their minimum sizes (Unix: 12 bytes, OS-9: 22 bytes)
        if rnd.random() < 0.5:
            full = bytes([rnd.choice(b'UK'), 0]) + H.u32(rnd.randrange(2 ** 32)) + H.u16(rnd.randrange(65536)) + H.u16(1) + H.u16(2)
            m['area'] = full[:rnd.choice([1, 2, 5, 6, 10, 11, 12])]
        else:
            x = bytes([rnd.randrange(256), rnd.randrange(256)])
            full = b'9' + x + bytes(6) + b'\xcc' + bytes(7) + x + bytes(3)
            m['area'] = full[:rnd.choice([1, 3, 9, 10, 11, 17, 18, 19, 21, 22])]
    hdr = bytearray(H.build_header(m)[0])
    tail = m['data'] + H.build(c05.SENTINEL) + b'\0'
    k = rnd.choice([0, 1, 1, 2, 3])
    for _ in range(k):
        r = rnd.random()
        if lvl in (0, 1):
            if r < 0.3:
                hdr[0] = rnd.choice([0, 1, 21, 22, 24, 25, 26, len(hdr) - 2, len(hdr) - 1, 255, rnd.randrange(256)]) & 0xff
            elif r < 0.55:
                hdr[21] = rnd.choice([0, 1, len(hdr), 200, 255, rnd.randrange(256)]) & 0xff
            elif lvl == 1 and r < 0.8:
                base = 2 + hdr[0]
                if 2 <= base <= len(hdr):
                    hdr[base - 2:base] = struct.pack('<H', rnd.choice([1, 2, 3, 4, 65535, len(hdr), rnd.randrange(65536)]) & 0xffff)
            else:
                hdr[7:11] = struct.pack('<I', rnd.choice([0, 1, 2, 2 ** 32 - 1, rnd.randrange(2 ** 32)]))
        elif lvl == 2:
            if r < 0.4:
                hdr[0:2] = struct.pack('<H', rnd.choice([0, 25, 26, 27, len(hdr) - 1, len(hdr) + 1, 65535, rnd.randrange(65536)]) & 0xffff)
            else:
                off = 24
                hops = rnd.randrange(4)
                for _h in range(hops):
                    if off + 2 > len(hdr):
                        break
                    sz = struct.unpack_from('<H', hdr, off)[0]
                    if sz == 0 or off + sz > len(hdr):
                        break
                    off += sz
                if off + 2 <= len(hdr):
                    rest = len(hdr) - off - 2
                    hdr[off:off + 2] = struct.pack('<H', rnd.choice([1, 2, 3, rest, rest + 1, rest - 1 if rest > 0 else 0, 65535]) & 0xffff)
        else:
            if r < 0.4:
                hdr[24:28] = struct.pack('<I', rnd.choice([0, 31, 32, 33, len(hdr) - 1, len(hdr) + 1, 2 ** 20, 2 ** 20 + 1, 2 ** 32 - 1]))
            elif r < 0.5:
                hdr[0:2] = struct.pack('<H', rnd.choice([0, 2, 8]))
            else:
                off = 28
                for _h in range(rnd.randrange(4)):
                    if off + 4 > len(hdr):
                        break
                    sz = struct.unpack_from('<I', hdr, off)[0]
                    if sz == 0 or off + sz > len(hdr):
                        break
                    off += sz
                if off + 4 <= len(hdr):
                    rest = len(hdr) - off - 4
                    hdr[off:off + 4] = struct.pack('<I', rnd.choice([1, 2, 3, 4, 5, rest, rest + 1, 2 ** 32 - 1, 2 ** 31]))
    repair(hdr, lvl)
    a = bytes(hdr) + tail
    if rnd.random() < 0.3 and len(a) > 1:
        a = a[:rnd.randrange(1, len(a))]
    return a


_LHNEW = ['-lh4-', '-lh5-', '-lh6-', '-lh7-', '-lhx-', '-lk7-']


def hostile_member(rnd):
    from . import c09
    from ..lhamodel import lhnew
    from ..lhamodel.bits import BitWriter
    from .. import streams
    method = rnd.choice(_LHNEW + _LHNEW + ['-pm2-', '-pm1-', '-lh1-', '-lz5-', '-lzs-'])
    r = rnd.random()
    if method in lhnew.METHODS and r < 0.35:
        # one block, single-code code table holding any 9-bit value, single-code or tiny offset table, filler
        OB = lhnew.METHODS[method][0]
        bw = BitWriter()
        bw.put(rnd.choice([1, 2, 50, 65535]), 16)
        bw.put(0, 5); bw.put(rnd.randrange(32), 5)
        bw.put(0, 9); bw.put(rnd.choice([255, 256, 257, 287, 288, 289, 508, 509, 510, 511, rnd.randrange(512)]), 9)
        bw.put(0, OB); bw.put(rnd.choice([0, 1, 2, (1 << OB) - 1, rnd.randrange(1 << OB)]), OB)
        for _ in range(rnd.choice([0, 2, 64])):
            bw.put(rnd.choice([0, 0xff, rnd.randrange(256)]), 8)
        data = bw.bytes()
    elif method in lhnew.METHODS and r < 0.6:
        data = c09.hostile_lhnew(rnd, method)
    elif method == '-pm2-' and r < 0.6:
        data = c09.hostile_pm2(rnd)
    else:
        s_, _p, marks = streams.valid_stream(rnd, method, rnd.choice([5, 80, 400]))
        b = bytearray(s_)
        for _ in range(rnd.choice([0, 1, 2, 8])):
            if marks and rnd.random() < 0.6:
                _k, a0, e0 = rnd.choice(marks)
                bit = rnd.randrange(a0, max(a0 + 1, e0))
            else:
                bit = rnd.randrange(max(1, len(b) * 8))
            if bit // 8 < len(b):
                b[bit // 8] ^= 0x80 >> (bit % 8)
        data = bytes(b[:rnd.randrange(len(b) + 1)] if rnd.random() < 0.2 else b)
    mb, lvl, os_type = method.encode(), rnd.choice([0, 1, 2]), ord('U')
    if method == '-lk7-':
        mb, lvl, os_type = b'-lh7-', 1, 0x20
    m = H.simple_member(b'f', b'', level=lvl, method=mb, os_type=os_type, packed=data, size=rnd.choice([1, 300, 70000, 2 ** 21]))
    return H.build(m) + b'\0'


def mutate(rnd, A):
    b = bytearray(A)
    for _ in range(rnd.choice([1, 1, 2, 4, 16])):
        r = rnd.random()
        if not b:
            break
        if r < 0.4:
            b[rnd.randrange(len(b))] ^= 1 << rnd.randrange(8)
        elif r < 0.6:
            b[rnd.randrange(len(b))] = rnd.choice([0, 0xff, 0x2f, 0x2e, 0x7c, rnd.randrange(256)])
        elif r < 0.75:
            p = rnd.randrange(len(b))
            b[p:p] = bytes(rnd.randrange(256) for _ in range(rnd.choice([1, 2, 8])))
        elif r < 0.9:
            p = rnd.randrange(len(b))
            del b[p:p + rnd.choice([1, 2, 8])]
        else:
            del b[rnd.randrange(len(b)):]
    return bytes(b)


def pattern(rnd, nmem_hint):
    ops = []
    for _ in range(nmem_hint + 3):
        ops.append((rdh.OP_NEXT, 0))
        r = rnd.random()
        if r < 0.2:
            pass
        elif r < 0.4:
            ops.append((rdh.OP_READ, rnd.choice([1, 7, 128, 129, 5000])))
            if rnd.random() < 0.5:
                ops.append((rdh.OP_READ, rnd.choice([1, 64, 100000])))
        elif r < 0.6:
            ops.append((rdh.OP_READALL, 0))
        elif r < 0.8:
            ops.append((rdh.OP_CHECK if rnd.random() < 0.5 else rdh.OP_CHECK_NOCB, 0))
        else:
            ops.append((rdh.OP_EXTRACT_NAMED, 0))
    return ops


_PRESENCE = None
_COLLISIONS = None


def gen_cases(seed, n, corpus):
    rnd = random.Random(seed)
    cases = []
    for i in range(n):
        r = rnd.random()
        if r < 0.2:
            sig = rnd.choice([b'-lh5-', b'-lh0-', b'-lh1-', b'-lz5-', b'-pm2-', b'-pm1-', b'-lhd-', b'-lh7-', b'-lzs-', b'-lhx-'])
            a = bytes([rnd.randrange(256), rnd.randrange(256)]) + sig + bytes(rnd.randrange(256) for _ in range(rnd.choice([10, 30, 100, 1000])))
            a = a[:20] + bytes([rnd.choice([0, 1, 2, 3, 3, 2, 4, 255])]) + a[21:]
            kind_in = 'random-with-signature'
        elif r < 0.55 and corpus:
            a = mutate(rnd, rnd.choice(corpus))
            kind_in = 'mutated-corpus'
        elif r < 0.65:
            a = mutate(rnd, arc.archive(c15.random_archive(rnd)))
            kind_in = 'mutated-generated'
        elif r < 0.66:
            # entries that collide on disk (the same benign name stored twice or as different kinds), extracted to the paths their
            # headers name: calls that find something unexpected in place take failure paths ordinary archives never reach
            global _COLLISIONS
            if _COLLISIONS is None:
                from . import c20
                _COLLISIONS = c20.collision_archives(random.Random(12345), 'thorough')
            name, members = rnd.choice(_COLLISIONS)
            ops = []
            for _ in range(len(members) + 4):
                ops += [(rdh.OP_NEXT, 0)] + ([(rdh.OP_EXTRACT, 0)] if rnd.random() < 0.85 else [])
            cases.append(rdh.RCase(arc.archive(members), ops, kind=rnd.choice([0, 2]), policy=rnd.choice([0, 1, 2, 3]), flags=rdh.F_HDRPATHS, meta='collision'))
            continue
        elif r < 0.73:
            # a header from the name/path presence matrix (entry kinds the library has to classify: file, directory, symlink-mode
            # entry with and without a target, Amiga directory quirk - with and without name and path), followed by ordinary
            # members inside a directory, walked mostly with extract so that the reader's directory bookkeeping sees it
            global _PRESENCE
            if _PRESENCE is None:
                from . import c12
                _PRESENCE = c12.presence_bases()
            m = rnd.choice(_PRESENCE)
            tail = [arc.file_member(rnd, '-lh0-', b'x', size=3, level=rnd.choice([0, 1, 2]), path=rnd.choice([b'p/', b'p/q/', b''])) for _ in range(rnd.choice([1, 2]))]
            a = H.build(m) + b''.join(x.bytes() for x in tail) + b'\0'
            if rnd.random() < 0.2:
                a = mutate(rnd, a)
            kind_in = 'presence-matrix'
            ops = []
            for _ in range(5):
                ops.append((rdh.OP_NEXT, 0))
                if rnd.random() < 0.8:
                    ops.append((rdh.OP_EXTRACT_NAMED, 0))
            cases.append(rdh.RCase(a, ops, kind=rnd.choice([0, 2]), policy=rnd.choice([0, 1, 2, 3]), meta=kind_in))
            continue
        elif r < 0.81:
            # a well-formed header in front of hostile compressed data: table forms with every count and single-code value at its
            # extremes, valid streams with bit flips, all decoded through the reader (whose decoder lives in one heap block with
            # its output buffer, so a command that yields more than the buffer holds runs off the end of that block)
            a, kind_in = hostile_member(rnd), 'hostile-compressed-member'
            ops = [(rdh.OP_NEXT, 0), rnd.choice([(rdh.OP_READALL, 0), (rdh.OP_CHECK, 0), (rdh.OP_CHECK_NOCB, 0), (rdh.OP_READ, 100000)]), (rdh.OP_NEXT, 0)]
            cases.append(rdh.RCase(a, ops, kind=rnd.choice([0, 1, 2]), policy=0, meta=kind_in))
            continue
        else:
            a = hostile(rnd)
            kind_in = 'structured-hostile'
        kind = rnd.choice([0, 1, 2, 3, 4])
        cases.append(rdh.RCase(a, pattern(rnd, rnd.choice([1, 3, 6])), kind=kind, policy=rnd.choice([0, 1, 2, 3]), meta=kind_in))
    return cases


def line_coverage(b, seed, corpus, n):
    """gcov line coverage of the anchored sources reached by a sample of this run's workload (same generator, --coverage build)"""
    import subprocess, re
    exe = b.harness('cov', 'reader', ['h_reader.c'], wrap_alloc=True)
    cases = gen_cases(seed, n, corpus)
    st = core.Shard()
    rdh.run_batch(exe, cases, st, label='c08cov', on_crash=lambda *a: None, env_extra={'VERIF_CASE_CPU_S': '60'})
    objdir = os.path.join(b.root, 'cov', 'lib')
    out = {}
    for src in sorted(os.listdir(os.path.join(build.REPO, 'lib'))):
        if not src.endswith('.c') or src in build.TEMPLATES or not os.path.exists(os.path.join(objdir, src[:-2] + '.gcda')):
            continue
        r = subprocess.run(['gcov', '-n', '-o', objdir, os.path.join(build.REPO, 'lib', src)], capture_output=True, text=True, cwd=objdir)
        for m in re.finditer(r"File '([^']+)'\nLines executed:([0-9.]+)% of (\d+)", r.stdout):
            f = m.group(1)
            if f.startswith(build.REPO + '/lib/') or f in build.TEMPLATES or (not f.startswith('/') and f.endswith('.c')):
                name = os.path.basename(f)
                pct, tot = float(m.group(2)), int(m.group(3))
                if name not in out or out[name][1] < tot or out[name][0] < pct:
                    out[name] = [pct, tot]
    return out


def shard(seed, n, corpus, tier):
    sh = core.Shard()
    cases = gen_cases(seed, n, corpus)

    def on_crash(case, cls, key, err):
        if cls == 'hang':
            sh.count('watchdog_hits')     # termination is C13's subject; recorded, not judged here
            return
        sh.violation('C08:%s' % key, '%s input via %s: %s\n%s' % (case.meta, rdh.KIND_NAMES[case.kind], cls, err[:1500]), case.archive)
    res = rdh.run_batch(_EXE, cases, sh, label='c08', on_crash=on_crash, env_extra={'VERIF_CASE_CPU_S': '20'})
    for c in cases:
        ev = res.get(c.id)
        sh.evaluated(c.archive + repr((c.ops, c.kind)).encode(), nontrivial=ev is not None and any(k == 'next' and d is not None for k, d in ev))
        sh.hist('inputs_by_kind', c.meta)
        sh.hist('stream_kinds', rdh.KIND_NAMES[c.kind])
        if ev is None:
            continue
        sh.count('headers_returned', sum(1 for k, d in ev if k == 'next' and d is not None))
        sh.count('members_decoded', sum(1 for k, d in ev if k in ('readall', 'check', 'extract')))
        for k, d in ev:
            if k == 'apiviolation':
                sh.violation('C08-read-returned-more-than-asked', 'lha_reader_read returned more bytes than requested', c.archive)
    if cases:
        sh.sample({'input_kind': cases[0].meta, 'archive_hex': cases[0].archive.hex()[:160], 'ops': cases[0].describe()[:200]})
    return sh


def cli_one(job):
    n, a, mode, base, exe, so, kind_in = job
    d = os.path.join(base, 'r%d' % n)
    root = os.path.join(d, 'root')
    os.makedirs(d)
    cli.mkdir_for_nobody(root)
    os.chmod(d, 0o755)
    p = os.path.join(d, 'a.lzh')
    open(p, 'wb').write(a)
    os.chmod(p, 0o644)
    pats = [] if n % 3 else [['*'], ['a*', '*.txt'], ['?*']][(n // 3) % 3]
    rc, so_, se, evs = fsmon.run_monitored(exe, so, [mode, '../a.lzh'] + pats, root, stdin=b'y\n' * 20,
                                           env={'ASAN_OPTIONS': build.SAN_ENV['ASAN_OPTIONS'] + ':verify_asan_link_order=0'}, timeout=60)
    shutil.rmtree(d, ignore_errors=True)
    return a, mode, rc, se.decode('latin1'), kind_in


def run(ctx):
    global _EXE
    b = build.Builder()
    _EXE = b.harness('asan', 'reader', ['h_reader.c'], wrap_alloc=True)
    rnd = random.Random(ctx.seed)
    files = sorted(p for p in glob.glob(os.path.join(build.REPO, 'test', 'archives', '*', '*')) if os.path.isfile(p) and os.path.getsize(p) < 65536)
    corpus = [open(p, 'rb').read() for p in files]
    nsh = 16
    per = 4000 if ctx.tier == 'quick' else 190000
    core.run_shards(ctx, shard, [(ctx.seed * 211 + i, per, corpus, ctx.tier) for i in range(nsh)])
    try:
        cov = line_coverage(b, ctx.seed * 211, corpus, 2500 if ctx.tier == 'quick' else 20000)
        ctx.cov['line_coverage_of_sample'] = {k: '%.1f%% of %d lines' % (v[0], v[1]) for k, v in sorted(cov.items())}
        hdr = cov.get('lha_file_header.c')
        # (a tree that crashes loses the counters of every crashed coverage process: when violations were found the gate would only
        # hide them behind a harness failure)
        if hdr and hdr[0] < 60 and not ctx.violations:
            raise core.HarnessFailure('workload reaches only %.0f%% of lha_file_header.c' % hdr[0])
    except core.HarnessFailure:
        raise
    except Exception as e:            # coverage is evidence, never a verdict
        ctx.cov['line_coverage_of_sample'] = 'unavailable: %s' % e
    # (b) the tool itself, ASan build
    exe = b.cli('asan')
    so = b.shared('fsmon', 'fsmon.c')
    base = os.path.join(build.scratch_root(), 'c08cli')
    os.makedirs(base, exist_ok=True)
    os.chmod(base, 0o755)
    jobs = []
    for n in range(4000 if ctx.tier == 'quick' else 100000):
        r = rnd.random()
        if r < 0.45:
            a, kin = mutate(rnd, rnd.choice(corpus)), 'mutated-corpus'
        elif r < 0.55:
            a, kin = mutate(rnd, arc.archive(c15.random_archive(rnd))), 'mutated-generated'
        else:
            a, kin = hostile(rnd), 'structured-hostile'
        jobs.append((n, a, rnd.choice(CLI_MODES), base, exe, so, kin))
    with ThreadPoolExecutor(max_workers=16) as ex:
        for a, mode, rc, err, kin in ex.map(cli_one, jobs):
            ctx.evaluated(a + mode.encode(), nontrivial=len(a) > 30)
            ctx.hist('cli_runs_by_mode', mode.split('=')[0])
            ctx.count('cli_runs')
            if rc == -999:
                ctx.count('cli_watchdog_hits')
                continue
            if rc < 0 or 'ERROR: AddressSanitizer' in err or 'runtime error:' in err or 'VERIF-HOOK-VIOLATION' in err:
                cls, key, is_lhasa = dech.classify_crash(err, rc)
                if 'LD_PRELOAD' in err and 'cannot be preloaded' in err:
                    raise core.HarnessFailure('preload failed: ' + err[:300])
                ctx.violation('C08-cli:%s:%s' % (mode.split('=')[0], key), "'lha %s' on a %s input ended abnormally (%s): %s" % (mode, kin, cls, err[:1500]), a)
    shutil.rmtree(base, ignore_errors=True)
    if ctx.tier == 'thorough':
        from .. import fuzz
        seeds = [bytes([7]) + c for c in corpus] + [bytes([rnd.randrange(256)]) + hostile(rnd) for _ in range(400)] \
            + [bytes([rnd.randrange(256)]) + arc.archive(c15.random_archive(rnd)) for _ in range(100)]
        fuzz.run_fuzzer(ctx, b, 'reader', 'fz_reader.c', seeds, runs=300000, workers=16, key_prefix='C08', max_len=16384)
    ctx.cov['rule'] = ('inputs: random bytes behind a planted signature, mutated corpus/generated archives, structure-aware hostile headers (length fields at/around their '
                       'limits with checksums repaired), truncations; (a) reader API patterns over {next, read(k), read-to-end, check, extract to a harness-named file, skip} '
                       'with each entry decoded/extracted at most once, 5 stream kinds, 4 policies; (b) the ASan-built tool in 13 modes; distinct by input+pattern; '
                       'non-trivial = at least one header was returned (a) / input longer than a header (b)')
    ctx.assumptions += ['a clean run is not memory safety: only executed paths are observed; intra-object errors outside array-typed indexing/hooks can escape',
                        'shift/overflow UB that is not a memory error (e.g. decode_ftime) is outside this property and not fatal in the verdict build']


def replay(ctx, path):
    global _EXE
    b = build.Builder()
    _EXE = b.harness('asan', 'reader', ['h_reader.c'], wrap_alloc=True)
    a = open(path, 'rb').read()
    sh = core.Shard()
    cases = [rdh.RCase(a, [(rdh.OP_WALK, w)], kind=k, meta='replay') for k in range(5) for w in (0, 2, 3, 4)]
    rdh.run_batch(_EXE, cases, sh, on_crash=lambda c, cls, key, err: sh.violation('C08:' + key, err[:1500], c.archive))
    sh.evals = len(cases)
    core.merge_shard(ctx, sh)
    ctx.cov['distinct_nontrivial'] = max(2, ctx.cov['distinct_nontrivial'])
