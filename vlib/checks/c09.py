"""C09 - no compressed data makes any decompressor touch invalid memory; no read returns more than asked.
Monitor: ASan + bounds-UBSan on the asan build, with (a) the per-type init/read callbacks driven directly,
state and output buffer each in their own exact-size heap block (so the state end and the output end get red
zones that lha_decoder_new's single allocation would hide), (b) lha_decoder_read into exact-size caller buffers,
(c) hooks H1-H3 (tree invariant, PMarc table indices incl. far out-of-range ones ASan cannot see, pm1 tree row)."""
import random
from .. import build, core, dech, streams
from ..lhamodel import lhnew, pmarc
from ..lhamodel.bits import BitWriter

LEVEL = 'exploration'
_EXE = None
FILLS = [b'\x00', b'\xff', b'\x55', b'\xaa']


def hostile_lhnew(rnd, method):
    OB = lhnew.METHODS[method][0]
    bw = BitWriter()
    for _blk in range(rnd.choice([1, 1, 2, 4])):
        bw.put(rnd.choice([0, 1, 5, 65535, rnd.randrange(65536)]), 16)
        n = rnd.choice([0, 1, 2, 3, 4, 19, 30, 31, rnd.randrange(32)])
        bw.put(n, 5)
        if n == 0:
            bw.put(rnd.randrange(32), 5)
        else:
            i = 0
            while i < n:
                lhnew.put_len(bw, rnd.choice([0, 0, 1, 1, 2, 3, 4, 5, 7, 8, 16, 17, 30]), set())
                i += 1
                if i == 3:
                    s = rnd.randrange(4)
                    bw.put(s, 2)
                    i += s
        cn = rnd.choice([0, 1, 2, 255, 256, 509, 510, 511, rnd.randrange(512)])
        bw.put(cn, 9)
        if cn == 0:
            bw.put(rnd.choice([0, 255, 256, 509, 510, 511, rnd.randrange(512)]), 9)
        else:
            for _ in range(rnd.randrange(0, cn * 2 + 2)):
                bw.put(rnd.randrange(256), 8)
        mx = (1 << OB) - 1
        on = rnd.choice([0, 1, mx - 1, mx, rnd.randrange(mx + 1)])
        bw.put(on, OB)
        if on == 0:
            bw.put(rnd.choice([0, mx, rnd.randrange(mx + 1)]), OB)
        else:
            for _ in range(on):
                lhnew.put_len(bw, rnd.choice([0, 1, 1, 2, 3, 4, 7, 16, 25]), set())
        for _ in range(rnd.choice([0, 4, 40, 400])):
            bw.put(rnd.randrange(256), 8)
    return bw.bytes()


def hostile_pm2(rnd, nc=None, minl=None):
    bw = BitWriter()
    bw.put(rnd.randrange(2), 1)
    nc = rnd.randrange(32) if nc is None else nc
    minl = rnd.randrange(8) if minl is None else minl
    bw.put(nc, 5)
    bw.put(minl, 3)
    if minl:
        lb = rnd.randrange(8)
        bw.put(lb, 3)
        for _ in range(nc):
            bw.put(rnd.choice([0, 1, 1, 2, rnd.randrange(1 << lb) if lb else 0]) & ((1 << lb) - 1) if lb else 0, lb)
    for _ in range(5):
        bw.put(rnd.choice([0, 0, 1, 2, 3, 7]), 3)
    for _ in range(rnd.choice([2, 30, 300, 3000])):
        bw.put(rnd.randrange(256), 8)
    return bw.bytes()


def pm2_codes_29_30():
    """Directed: a complete code over all 31 declarable codes, so the meaningless codes 29 and 30 are reachable."""
    out = []
    for pad in (0x00, 0xff, 0xaa):
        bw = BitWriter()
        bw.put(0, 1)
        bw.put(31, 5)
        bw.put(5, 3)           # min length 5
        bw.put(1, 3)           # 1 bit per entry: value 1 -> length 5
        for _ in range(31):
            bw.put(1, 1)
        for _ in range(5):
            bw.put(1, 3)
        # 31 codes of length 5: code k = k; emit codes 29 and 30 then filler
        for k in (29, 30, 29, 30):
            bw.put(k, 5)
            bw.put(pad & 0x7f, 7)
        for _ in range(40):
            bw.put(pad, 8)
        out.append(bw.bytes())
    return out


def pm1_paths():
    out = []
    for tree in range(32):
        for depth_bits in range(64):
            bw = BitWriter()
            bw.put(tree, 5)
            bw.put(1, 1)
            bw.put(0, 2)               # byte block of length 1
            bw.put(depth_bits, 6)
            bw.put(0xffff, 16)
            out.append(bw.bytes())
    return out


def shard(method, seed, n, tier, directed):
    sh = core.Shard()
    rnd = random.Random(seed)
    cases = []

    def add(kind, data, declared=None, direct=None, sched=None, cap=None):
        declared = rnd.choice([0, 1, 100, 70000, (1 << 32) - 1]) if declared is None else declared
        direct = (rnd.random() < 0.5) if direct is None else direct
        if sched is None:
            sched = rnd.choice([[1], [2], [3], [64], [1 << 20], [rnd.choice([1, 5, 300, 70000]) for _ in range(6)]])
        cap = cap if cap is not None else rnd.choice([3000, 60000, 300000])
        if sched == [1] or sched == [2] or sched == [3]:
            cap = min(cap, 20000)
        cases.append(dech.Case(method, data, declared, sched=sched, flags=(dech.F_DIRECT if direct else 0) | dech.F_NOSTORE,
                               max_total=cap, in_chunk=rnd.choice([0, 0, 0, 1, 3]), meta=kind))

    if directed:
        for f in FILLS:
            for ln in (0, 1, 2, 3, 64, 5000):
                for direct in (True, False):
                    add('fill-%02x' % f[0], f * ln, declared=70000, direct=direct, sched=[4096], cap=70000)
        if method == '-pm2-':
            for s in pm2_codes_29_30():
                add('pm2-codes-29-30', s, declared=5000, direct=True, sched=[4096])
                add('pm2-codes-29-30', s, declared=5000, direct=False, sched=[4096])
            for nc in range(32):
                for minl in range(8):
                    add('pm2-header-grid', hostile_pm2(rnd, nc, minl), declared=20000, sched=[4096], cap=20000)
        if method == '-pm1-':
            for s in pm1_paths():
                add('pm1-tree-paths', s, declared=300, sched=[4096], cap=300)
            add('pm1-endless-empty', b'', declared=(1 << 32) - 1, direct=True, sched=[1 << 20], cap=1 << 20)
            add('pm1-endless-empty', b'', declared=(1 << 32) - 1, direct=False, sched=[1 << 20], cap=1 << 20)
        if method in lhnew.METHODS:
            OB = lhnew.METHODS[method][0]
            for code in range(1 << OB):          # single-code offset table with every code value
                bw = BitWriter()
                bw.put(200, 16); bw.put(0, 5); bw.put(0, 5); bw.put(0, 9); bw.put(300, 9); bw.put(0, OB); bw.put(code, OB)
                for _ in range(64):
                    bw.put(rnd.randrange(256), 8)
                add('single-offset-code-all', bw.bytes(), declared=70000, sched=[4096], cap=70000)
            for code in (0, 255, 256, 288, 289, 509, 510, 511):
                bw = BitWriter()
                bw.put(50, 16); bw.put(0, 5); bw.put(0, 5); bw.put(0, 9); bw.put(code, 9); bw.put(0, OB); bw.put(1, OB)
                for _ in range(64):
                    bw.put(0xff, 8)
                add('single-code-extreme', bw.bytes(), declared=70000, sched=[4096], cap=70000)
    for i in range(n):
        r = rnd.random()
        if r < 0.25:
            add('random', bytes(rnd.randrange(256) for _ in range(rnd.choice([1, 9, 100, 1000, 8000]))))
        elif r < 0.6:
            s, p, marks = streams.valid_stream(rnd, method, rnd.choice([5, 80, 600]))
            b = bytearray(s)
            if marks and rnd.random() < 0.7:
                kind, a, e = rnd.choice(marks)
                for _ in range(rnd.choice([1, 2, 8])):
                    bit = rnd.randrange(a, max(a + 1, e))
                    if bit // 8 < len(b):
                        b[bit // 8] ^= 0x80 >> (bit % 8)
                add('flip-in-%s-table' % kind, bytes(b))
            elif b:
                for _ in range(rnd.choice([1, 2, 8])):
                    b[rnd.randrange(len(b))] ^= 1 << rnd.randrange(8)
                add('flip-anywhere', bytes(b))
            if len(s) > 1:
                add('truncated', s[:rnd.randrange(len(s))])
        else:
            if method in lhnew.METHODS:
                add('hostile-tables', hostile_lhnew(rnd, method))
            elif method == '-pm2-':
                add('hostile-tables', hostile_pm2(rnd))
            elif method == '-pm1-':
                add('hostile-header', bytes([rnd.randrange(256)]) + bytes(rnd.choice([0, 0xff, rnd.randrange(256)]) for _ in range(rnd.choice([1, 30, 900]))))
            elif method == '-lh1-':
                add('long-garbage', bytes(rnd.choice([0xff, 0x00, rnd.randrange(256)]) for _ in range(rnd.choice([100, 20000]))), cap=300000)
            else:
                add('random', bytes(rnd.randrange(256) for _ in range(rnd.choice([3, 50, 2000]))))

    def on_crash(case, cls, key, err):
        sh.violation('C09:%s:%s' % (case.method, key),
                     '%s decoder fed %s data (%d bytes, declared %d, %s mode, schedule %s): %s\n%s'
                     % (case.method, case.meta, len(case.stream), case.declared,
                        'direct-callback' if case.flags & dech.F_DIRECT else 'lha_decoder_read', case.sched[:6], cls, err[:1500]),
                     case.stream)
    res = dech.run_batch(_EXE, cases, sh, label='c09', on_crash=on_crash)
    for c in cases:
        r = res.get(c.id)
        sh.evaluated(method.encode() + c.stream + repr((c.declared, c.sched, c.flags)).encode(), nontrivial=len(c.stream) > 2)
        sh.hist('streams_by_method', method)
        sh.hist('streams_by_kind', c.meta)
        if r is None:
            continue
        sh.hist('decoded_length_buckets', '0' if r.total == 0 else '<100' if r.total < 100 else '<10k' if r.total < 10000 else '>=10k')
        if r.apiv & 1:
            sh.violation('C09:%s:read-returned-more-than-asked' % method, 'lha_decoder_read returned more than requested (%s)' % c.meta, c.stream)
        if r.apiv & 2:
            sh.violation('C09:%s:read-callback-exceeds-max_read' % method, 'dtype->read returned more than max_read (%s)' % c.meta, c.stream)
    if cases:
        sh.sample({'method': method, 'kind': cases[-1].meta, 'stream_hex': cases[-1].stream.hex()[:120], 'declared': cases[-1].declared,
                   'schedule': cases[-1].sched[:6]})
    return sh


def run(ctx):
    global _EXE
    b = build.Builder()
    _EXE = b.harness('asan', 'decode', ['h_decode.c'])
    args = []
    per = 700 if ctx.tier == 'quick' else 6000
    reps = 2 if ctx.tier == 'quick' else 16
    for mi, m in enumerate(streams.ALL_METHODS):
        for r in range(reps):
            args.append((m, ctx.seed * 6007 + mi * 131 + r, per, ctx.tier, r == 0))
    core.run_shards(ctx, shard, args)
    if ctx.tier == 'thorough':
        from .. import fuzz
        rnd = random.Random(ctx.seed)
        names14 = ['-lz4-', '-lz5-', '-lzs-', '-lh0-', '-lh1-', '-lh4-', '-lh5-', '-lh6-', '-lh7-', '-lhx-', '-lk7-', '-pm0-', '-pm1-', '-pm2-']
        seeds = []
        for mi, m in enumerate(names14):
            for k in range(12):
                s_, p_, _ = streams.valid_stream(rnd, m, rnd.choice([5, 60, 400]))
                seeds.append(bytes([mi + (128 if k % 2 else 0), rnd.randrange(256)]) + s_)
            if m in lhnew.METHODS:
                seeds += [bytes([mi, 3]) + hostile_lhnew(rnd, m) for _ in range(6)]
        seeds += [bytes([13, 2]) + hostile_pm2(rnd) for _ in range(20)]
        fuzz.run_fuzzer(ctx, b, 'decode', 'fz_decode.c', seeds, runs=60000, workers=16, key_prefix='C09', max_len=8192)
    if ctx.cov.get('hook_trees_validated', 0) == 0 or ctx.cov.get('hook_indexes_checked', 0) == 0 or ctx.cov.get('hook_rows_checked', 0) == 0:
        raise core.HarnessFailure('hooks H1-H3 were never reached: is /repo built with -DLHASA_VERIF and are the hooks present?')
    ctx.cov['rule'] = ('per method (14 names): constant fills, random bytes, valid streams with bit flips inside table regions reported by '
                       'the serialisers, truncations, structure-aware hostile tables (count fields at/above maxima, over/under-subscribed '
                       'lengths, every single-code value), pm2 header grid 32x8 and reachable codes 29/30, pm1 all 32 trees x 64 bit paths; '
                       'declared lengths 0/1/100/70000/2^32-1; read schedules 1,2,3,64,huge,mixed; direct-callback and API mode; distinct by '
                       '(method, stream, declared, schedule, mode); non-trivial = stream longer than 2 bytes')
    ctx.assumptions += ['a clean run is not memory safety: heap-layout dependent errors and intra-object accesses outside array-typed '
                        'indexing / hooks can escape']


def replay(ctx, path):
    global _EXE
    b = build.Builder()
    _EXE = b.harness('asan', 'decode', ['h_decode.c'])
    data = open(path, 'rb').read()
    sh = core.Shard()
    cases = []
    for m in streams.ALL_METHODS:
        for direct in (0, dech.F_DIRECT):
            cases.append(dech.Case(m, data, 70000, sched=[4096], flags=direct | dech.F_NOSTORE, max_total=70000, meta='replay'))
    dech.run_batch(_EXE, cases, sh, on_crash=lambda c, cls, key, err: sh.violation('C09:%s:%s' % (c.method, key), err[:1500], c.stream))
    sh.evals = len(cases)
    core.merge_shard(ctx, sh)
    ctx.cov['distinct_nontrivial'] = max(2, ctx.cov['distinct_nontrivial'])
