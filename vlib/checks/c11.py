"""C11 - returned paths never contain '.', '..' or empty components; names contain no '/'.
Exhaustive over the alphabet {'.', '/', '\\', 0xFF, NUL, letter} up to a length bound through every name/path
channel (level-0/1 in-header names, file-name and path extended headers, symlink 'name|target' forms with '|' at
every position) and five OS types; the predicate is evaluated in the harness on what lha_reader_next_file returns."""
import subprocess, re
from concurrent.futures import ThreadPoolExecutor
from .. import build, core, dech

LEVEL = 'exploration'


def parse(ctx, r, args, tot):
    if r.returncode != 0:
        err = r.stderr
        cls, key, is_lhasa = dech.classify_crash(err, r.returncode)
        m = re.search(r'CURRENT archive=([0-9a-f]*)', err)
        if not is_lhasa:
            raise core.HarnessFailure('h_hdrenum failed: %s' % err[-800:])
        ctx.violation('C11-crash:' + key, 'parsing a header ended in %s: %s' % (cls, err[:1500]),
                      bytes.fromhex(m.group(1)) if m else err, ext='bin' if m else 'txt')
        return
    m = re.search(r'SUMMARY mode=(\w+) strings=(\d+) parsed=(\d+) returned=(\d+) rejected=(\d+) with_path=(\d+) strings_with_dotdot=(\d+) violations=(\d+)', r.stdout)
    if not m:
        raise core.HarnessFailure('no summary from h_hdrenum: ' + r.stdout[-300:] + r.stderr[-300:])
    for k, v in zip(('strings', 'parsed', 'returned', 'rejected', 'with_path', 'dotdot', 'viol'), m.groups()[1:]):
        tot[k] = tot.get(k, 0) + int(v)
    for line in r.stdout.splitlines():
        if line.startswith('WITNESS'):
            mm = re.match(r'WITNESS C11 channel=(\S+) rule=(\S+) archive=([0-9a-f]*)', line)
            ctx.violation('C11:%s:%s' % (mm.group(2), mm.group(1)), 'returned path/filename violates the invariant (%s via %s)' % (mm.group(2), mm.group(1)),
                          bytes.fromhex(mm.group(3)))


def run(ctx):
    b = build.Builder()
    exe = b.harness('asan', 'hdrenum', ['h_hdrenum.c', 'ref_hdrrules.c'])
    maxlen = 5 if ctx.tier == 'quick' else 7
    nsh = 16 if ctx.tier == 'quick' else 64
    jobs = [['c11', maxlen, i, nsh] for i in range(nsh)]
    nrand = 6000 if ctx.tier == 'quick' else 60000
    jobs += [['c11r', ctx.seed * 77 + i, nrand] for i in range(16)]
    tot = {}

    def one(a):
        return a, subprocess.run([exe] + [str(x) for x in a], capture_output=True, text=True, env=build.san_env())
    with ThreadPoolExecutor(max_workers=16) as ex:
        for a, r in ex.map(one, jobs):
            parse(ctx, r, a, tot)
    expect = sum(6 ** L for L in range(1, maxlen + 1))
    enumerated = tot.get('strings', 0) - 16 * nrand
    if enumerated != expect:
        if not ctx.violations:
            raise core.HarnessFailure('enumerated %d strings, expected %d' % (enumerated, expect))
    ctx.cov['evaluations'] = tot.get('parsed', 0)
    ctx.cov['distinct_nontrivial'] = tot.get('with_path', 0)
    ctx.cov['exhaustive'] = True
    ctx.cov.update(strings_enumerated=enumerated, random_strings=16 * nrand, headers_returned=tot.get('returned', 0),
                   headers_rejected=tot.get('rejected', 0), returned_with_path=tot.get('with_path', 0),
                   strings_containing_dotdot=tot.get('dotdot', 0), max_string_length=maxlen)
    ctx.cov['rule'] = ('all strings of length 1..%d over {., /, \\, 0xFF, NUL, a} through 19+ channels (file, directory and link entries) x 5 OS types, each parsed '
                       'through lha_reader_next_file (each (string, channel, OS) is a distinct header by construction); '
                       'distinct_nontrivial = parses that returned a header with a non-NULL path (where collapsing can matter)' % maxlen)
    ctx.cov['samples'] = [{'string': '2e2e2f61', 'channels': ['L0-name', 'L1-name', 'L2-ext-path+name', 'L2-symlink-in-filename', '...']},
                          {'cmd': 'h_hdrenum c11 %d 0 %d' % (maxlen, nsh)}]
    ctx.assumptions.append("an unterminated trailing fragment of path is not constrained (the statement speaks of '/'-terminated components)")


def replay(ctx, path):
    run(ctx)
