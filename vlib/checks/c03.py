"""C03 - stored methods are the identity up to the declared length; -lzs-/-lz5- decode every
well-formed stream to what its commands denote in the 2 KiB / 4 KiB ring models."""
import random
from .. import build, core, dech, rdh, arc
from ..lhamodel import larc

LEVEL = 'exploration'
_EXE = None
_RDR = None


def check_batch(sh, cases, expect, label):
    def on_crash(case, cls, key, err):
        sh.violation('C03-crash:' + key, 'decoding a well-formed %s stream ended in %s: %s' % (case.method, cls, err[-1200:]), case.stream)
    res = dech.run_batch(_EXE, cases, sh, label=label, on_crash=on_crash)
    for c, exp in zip(cases, expect):
        r = res.get(c.id)
        if r is None:
            continue
        if r.status != 0:
            sh.violation('C03-nodecoder:' + c.method, 'no decoder for ' + c.method, c.stream)
        elif r.out != exp:
            k = next((i for i in range(min(len(exp), len(r.out))) if exp[i] != r.out[i]), min(len(exp), len(r.out)))
            sh.violation('C03-mismatch:%s:%s' % (c.method, c.meta), '%s (%s): decoded %d bytes, expected %d, first difference at %d; stream=%s'
                         % (c.method, c.meta, len(r.out), len(exp), k, c.stream[:24].hex()), c.stream)


def shard_probe(method, lo_pos, hi_pos):
    """Exhaustive: one copy command as the whole stream, every position x every length."""
    sh = core.Shard()
    rnd = random.Random(lo_pos)
    lo, hi = (3, 18) if method == '-lz5-' else (2, 17)
    ser = larc.serialise_lz5 if method == '-lz5-' else larc.serialise_lzs
    exp_f = larc.expand_lz5 if method == '-lz5-' else larc.expand_lzs
    cases, expect = [], []
    for p in range(lo_pos, hi_pos):
        for n in range(lo, hi + 1):
            cm = [('P', p, n)]
            cases.append(dech.Case(method, ser(cm, rnd), n, meta='single-copy'))
            expect.append(exp_f(cm))
            sh.evaluated(b'%s:%d:%d' % (method.encode(), p, n), nontrivial=True)
    sh.count('single_copy_probes_' + method.strip('-'), len(cases))
    check_batch(sh, cases, expect, 'c03p')
    return sh


def shard_random(method, seed, nstreams):
    sh = core.Shard()
    rnd = random.Random(seed)
    ser = larc.serialise_lz5 if method == '-lz5-' else larc.serialise_lzs
    exp_f = larc.expand_lz5 if method == '-lz5-' else larc.expand_lzs
    size = 4096 if method == '-lz5-' else 2048
    lo, hi = (3, 18) if method == '-lz5-' else (2, 17)
    start = size - (18 if method == '-lz5-' else 17)
    cases, expect = [], []
    directed = [
        ('overlap-at-wp', [('L', 0x61), ('P', start, hi), ('P', start + 1, hi)]),
        ('read-own-output', [('P', start, hi), ('P', start, hi)]),
        ('behind-by-1', [('L', 1), ('L', 2), ('P', start + 1, hi), ('P', start, lo)]),
        ('seam', [('P', size - 1, hi), ('P', size - 2, lo), ('P', 0, hi)]),
        ('wrap-write', [('P', 13 * 65, hi)] * 300 + [('P', 0, hi), ('P', start, hi)]),
        ('all-literal', [('L', i) for i in range(256)]),
    ]
    for k in range(1, 9):      # final run with 1..8 commands (lz5 flag byte)
        directed.append(('final-run-%d' % k, [('L', 9)] * 8 + [('P', 5, lo) if i % 2 else ('L', i) for i in range(k)]))
    for fb in range(256):      # every flag-byte value (lz5), every mix of 8 commands
        directed.append(('flag-%02x' % fb, [('L', i) if (fb >> i) & 1 else ('P', (i * 517 + fb) % size, lo + (i + fb) % (hi - lo + 1)) for i in range(8)]))
    for tag, cm in directed:
        cases.append(dech.Case(method, ser(cm, rnd), len(exp_f(cm)), meta='directed:' + tag))
        expect.append(exp_f(cm))
    for i in range(nstreams):
        cm = larc.gen_cmds(rnd, method, rnd.choice([1, 7, 8, 9, 60, 700, 3000]))
        exp = exp_f(cm)
        sched = [rnd.choice([1, 5, 17, 144, 4096])] if rnd.random() < 0.5 else []
        cases.append(dech.Case(method, ser(cm, rnd), len(exp), sched=sched, meta='random'))
        expect.append(exp)
    for c, e in zip(cases, expect):
        sh.evaluated(c.stream, nontrivial=len(c.stream) > 3)
        sh.count('output_bytes', len(e))
        sh.hist('streams', c.method + (':directed' if c.meta != 'random' else ':random'))
    check_batch(sh, cases, expect, 'c03r')
    sh.sample({'method': method, 'commands': str(directed[0][1]), 'stream_hex': cases[0].stream.hex(), 'expected_hex': expect[0].hex()})
    return sh


def shard_stored(seed):
    sh = core.Shard()
    rnd = random.Random(seed)
    cases, expect = [], []
    for method in ('-lh0-', '-lz4-', '-pm0-'):
        for n in (0, 1, 2, 1023, 1024, 1025, 2047, 2048, 2049, 65537):
            data = bytes(rnd.randrange(256) for _ in range(n))
            for declared in sorted(set([n, max(0, n - 1), n // 2, 0])):
                for sched in ([], [1], [1023], [1024], [1025], [70000]):
                    if n > 3000 and sched == [1]:
                        continue
                    for chunk in (0, 1, 7):
                        if chunk and n > 3000:
                            continue
                        cases.append(dech.Case(method, data, declared, sched=sched, in_chunk=chunk,
                                               meta='stored n=%d declared=%d sched=%s chunk=%d' % (n, declared, sched, chunk)))
                        expect.append(data[:declared])
        for i in range(60):
            n = rnd.randrange(0, 5000)
            data = bytes(rnd.randrange(256) for _ in range(n))
            d = rnd.choice([n, rnd.randrange(0, n + 1)])
            cases.append(dech.Case(method, data, d, sched=[rnd.randrange(1, 3000)], meta='stored-random'))
            expect.append(data[:d])
    for c, e in zip(cases, expect):
        sh.evaluated(c.method.encode() + c.stream + str((c.declared, c.sched, c.in_chunk)).encode(), nontrivial=len(e) > 0)
        sh.hist('streams', c.method)
    check_batch(sh, cases, expect, 'c03s')
    return sh


def shard_reader(seed):
    """The same guarantee seen through the reader API: members of these methods under every OS type (OS type 'm' routes the data
    through the MacBinary probe, which must hand plain members on unchanged), sizes around 128 (the size of an envelope) and
    around the decoders' block sizes; read-all, check and 1-byte-then-rest patterns."""
    sh = core.Shard()
    rnd = random.Random(seed)
    cases, expect = [], []
    sizes = [0, 1, 2, 127, 128, 129, 255, 256, 257, 384, 1023, 1024, 1025, 2048, 4096, 5000]
    for meth in ('-lh0-', '-lz4-', '-pm0-', '-lz5-', '-lzs-'):
        for os_t in (ord('U'), ord('m'), ord('M'), ord('K'), ord('A'), 0):
            for lvl in (1, 2, 3):
                ms = [arc.file_member(rnd, meth, b'f%d' % i, size=sz, level=lvl, os_type=os_t) for i, sz in enumerate(rnd.sample(sizes, 5) + [128])]
                a = arc.archive(ms)
                for pat in (2, 3):
                    cases.append(rdh.RCase(a, [(rdh.OP_WALK, pat)], kind=rnd.choice([0, 2]), flags=rdh.F_FULLDATA, meta=(meth, os_t, lvl, pat)))
                    expect.append(ms)
    def on_crash(case, cls, key, err):
        sh.violation('C03-crash:' + key, 'reading %s members (OS type %r, level %d) through the reader: %s: %s' % (case.meta[0], case.meta[1], case.meta[2], cls, err[-800:]), case.archive)
    res = rdh.run_batch(_RDR, cases, sh, label='c03rd', on_crash=on_crash)
    for c, ms in zip(cases, expect):
        ev = res.get(c.id)
        sh.evaluated(c.archive + repr(c.meta).encode(), nontrivial=True)
        sh.hist('reader_members_by_os_type', chr(c.meta[1]) if c.meta[1] else '0')
        if ev is None:
            continue
        got = [d for k, d in ev if k in ('readall', 'check')]
        if len(got) != len(ms):
            sh.violation('C03-reader-members:%s:os=%s' % (c.meta[0], c.meta[1]), '%d members delivered through the reader, %d archived (%s)' % (len(got), len(ms), c.meta,), c.archive)
            continue
        for x, d in zip(ms, got):
            if c.meta[3] == 2 and d['data'] != x.plain:
                sh.violation('C03-reader-data:%s:os=%s' % (c.meta[0], chr(c.meta[1]) if c.meta[1] else '0'), 'member of %d bytes (%s, OS type %r, level %d) read through the reader '
                             'gave %d bytes' % (len(x.plain), c.meta[0], c.meta[1], c.meta[2], len(d['data'] or b'')), c.archive)
            elif c.meta[3] == 3 and d['result'] != 1:
                sh.violation('C03-reader-check:%s:os=%s' % (c.meta[0], chr(c.meta[1]) if c.meta[1] else '0'), 'lha_reader_check fails on a valid member of %d bytes (%s)' % (len(x.plain), c.meta,), c.archive)
    return sh


def run(ctx):
    global _EXE, _RDR
    b = build.Builder()
    _EXE = b.harness('asan', 'decode', ['h_decode.c'])
    _RDR = b.harness('asan', 'reader', ['h_reader.c'], wrap_alloc=True)
    args = []
    for lo in range(0, 4096, 512):
        args.append((shard_probe, ('-lz5-', lo, lo + 512)))
    for lo in range(0, 2048, 512):
        args.append((shard_probe, ('-lzs-', lo, lo + 512)))
    n = 1500 if ctx.tier == 'quick' else 20000
    reps = 2 if ctx.tier == 'quick' else 8
    for r in range(reps):
        args.append((shard_random, ('-lz5-', ctx.seed * 31 + r, n)))
        args.append((shard_random, ('-lzs-', ctx.seed * 37 + r, n)))
    args.append((shard_stored, (ctx.seed,)))
    for r in range(2 if ctx.tier == 'quick' else 12):
        args.append((shard_reader, (ctx.seed * 41 + r,)))
    core.run_shards(ctx, _dispatch, args)
    ctx.cov['exhaustive'] = True
    ctx.cov['exhaustive_subspace'] = 'single copy command as first command: all 4096x16 (lz5) and 2048x16 (lzs) (position, length) pairs'
    ctx.cov['rule'] = ('exhaustive single-copy probes over (position, length); directed overlap/seam/flag-byte cases (all 256 lz5 flag '
                       'bytes, final runs of 1..8 commands); seeded random command streams; stored methods over length/declared/'
                       'read-size/callback-chunk grids; the same methods through the reader API under six OS types (Mac OS routes data through the '
                       'MacBinary probe) with sizes around 128 and the block sizes; distinct by stream+parameters; non-trivial = more than one command or, for '
                       'probes, each (position,length) pair')
    ctx.assumptions.append('ring models in vlib/lhamodel/larc.py written from the format description (LArc fill pattern, write positions)')


def _dispatch(fn, a):
    return fn(*a)


def replay(ctx, path):
    run(ctx)
