"""C15 - members are independent of how other members were skipped, read or checked; re-presented entries appear
exactly once where documented; readers do not affect each other (interleaved or on different threads).
Oracle: lhamodel/reader_model.py stepped op by op beside the real event log; for corrupted archives the per-member
results are compared with solo reference runs; two-reader interleavings and TSan thread rounds compare each reader's
projection with its solo run."""
import os, random, itertools, re, struct, subprocess, shutil
from .. import build, core, rdh, arc, streams, dech
from ..lhamodel import header as H
from ..lhamodel.reader_model import ReaderModel, is_dangerous

LEVEL = 'exploration'
_EXE = None
OPS = ['N', 'R1', 'R5', 'RA', 'C', 'X', 'XN']
OPCODE = {'N': (rdh.OP_NEXT, 0), 'R1': (rdh.OP_READ, 1), 'R5': (rdh.OP_READ, 5), 'RA': (rdh.OP_READALL, 0), 'C': (rdh.OP_CHECK, 0),
          'X': (rdh.OP_EXTRACT, 0), 'XN': (rdh.OP_EXTRACT_NAMED, 0)}


def legal_histories(depth):
    """All op sequences of exactly `depth` ops obeying: at most one decode operation per member (a run of reads, or one
    check, or one extract) and at most one extract per entry.  The first op is always next."""
    out = []

    def rec(seq, mode):
        # mode: None = nothing done with current entry, 'r' = reading, 'd' = done (check or extract happened)
        if len(seq) == depth:
            out.append(tuple(seq))
            return
        for o in OPS:
            if o == 'N':
                rec(seq + [o], None)
            elif o in ('R1', 'R5', 'RA'):
                if mode in (None, 'r'):
                    rec(seq + [o], 'r')
            else:
                if mode is None:
                    rec(seq + [o], 'd')
    rec(['N'], None)
    return out


def fixed_archives(rnd):
    a1 = [arc.dir_member(b'd/', level=2, perms=0o40755), arc.file_member(rnd, '-lh5-', b'a', size=40, level=1, path=b'd/'),
          arc.file_member(rnd, '-lh0-', b'b', size=9, level=0)]
    a2 = [arc.dir_member(b'd/', level=1, perms=0o40700), arc.symlink_member(b'd/l', b'../x', level=2),
          arc.file_member(rnd, '-lz5-', b'z', size=30, level=2, path=b'd/')]
    # sibling directories where one name is a prefix of the other: 'ab/' ends when 'abc/' begins
    a3 = [arc.dir_member(b'ab/', level=2, perms=0o40755), arc.file_member(rnd, '-lzs-', b'f', size=20, level=2, path=b'ab/'),
          arc.dir_member(b'abc/', level=0, perms=0o40755), arc.file_member(rnd, '-pm2-', b'g', size=20, level=0, path=b'abc/')]
    # directories that carry no metadata at all (no time stamp, no permissions, no owner): they are re-presented like any other
    d0 = arc.dir_member(b'plain/', level=0)
    d0.m['dostime'] = 0
    d2 = arc.dir_member(b'bare2/', level=2)
    d2.m['time'] = 0
    a4 = [d0, arc.file_member(rnd, '-lh0-', b'a', size=5, level=0, path=b'plain/'), d2, arc.file_member(rnd, '-lh5-', b'b', size=12, level=2, path=b'bare2/')]
    # sibling directories whose names differ only in letter case: 'Docs/' ends when 'docs/' begins
    a5 = [arc.dir_member(b'Docs/', level=2, perms=0o40755), arc.file_member(rnd, '-lh0-', b'a', size=4, level=2, path=b'Docs/'),
          arc.dir_member(b'docs/', level=1, perms=0o40755), arc.file_member(rnd, '-lh5-', b'b', size=9, level=1, path=b'docs/'),
          arc.file_member(rnd, '-lh0-', b'README', size=3, level=2, path=b'DOCS/')]
    return [('dir-file-file', a1), ('dir-danglink-file', a2), ('prefix-sibling-dirs', a3), ('dirs-without-metadata', a4), ('case-sibling-dirs', a5)]


def random_archive(rnd):
    ms = []
    dirs = [b'']
    n = rnd.randrange(2, 7)
    for j in range(n):
        r = rnd.random()
        parent = rnd.choice(dirs)
        if r < 0.25:
            d = parent + rnd.choice([b'ab', b'abc', b'x', b'dir', b'AB', b'Dir', b'X']) + (b'%d/' % j if rnd.random() < 0.5 else b'/')
            if d in dirs:
                d = parent + b'u%d/' % j
            ms.append(arc.dir_member(d, level=rnd.randrange(4), perms=rnd.choice([0o40755, 0o40700, 0o40555, None])))
            if rnd.random() < 0.15:
                ms[-1].m['dostime' if ms[-1].m['level'] < 2 else 'time'] = 0        # a directory without a time stamp
                if ms[-1].m['level'] == 1:
                    ms[-1].m['exts'] = [e for e in ms[-1].m['exts'] if e[0] != 0x54]
            dirs.append(d)
        elif r < 0.4:
            tgt = rnd.choice([b'safe', b'../up', b'/abs/target', b'a/../..', b'sub/ok'])
            ms.append(arc.symlink_member(parent + b'l%d' % j + (b'x' * rnd.randrange(3)), tgt, level=rnd.choice([0, 1, 2, 3])))
        else:
            ms.append(arc.file_member(rnd, rnd.choice(streams.ALL_METHODS), b'f%d' % j, size=rnd.choice([0, 1, 12, 100, 700]),
                                      level=rnd.randrange(4), path=parent))
    return ms


def compare(sh, tag, members, policy, history, events, archive):
    """Step the model beside the real log."""
    hdrpaths = True
    model = ReaderModel(members, policy if policy != 3 else 1)
    ev = [e for e in events if e[0] in ('next', 'read', 'readall', 'check', 'extract')]
    if len(ev) != len(history):
        sh.violation('C15-log-length:' + tag, 'history %s produced %d result events' % (history, len(ev)), archive)
        return
    states = set()
    for k, (op, (kind, d)) in enumerate(zip(history, ev)):
        pre_state = model.state
        states.add((pre_state, op))
        if op == 'N':
            exp = model.next()
            eidx, efake = exp[1], exp[2]
            if d is None:
                if eidx is not None:
                    sh.violation('C15-early-end:%s:%s' % (tag, pre_state), 'history %s: step %d returned end of archive, model expects %s %s'
                                 % (list(history), k, 'fake' if efake else 'member', members[eidx].name), archive)
                    return
                continue
            if eidx is None:
                sh.violation('C15-after-end:%s' % tag, 'history %s: step %d returned a header (%r) after the end' % (list(history), k, d['filename']), archive)
                return
            name = (d['path'] or b'') + (d['filename'] or b'')
            want = model.full(eidx)
            if name != want and efake and model.state == 'deferred':
                # equal-length deferred symlinks may come in either order
                alt = [j for j in model.deferred if model.full(j) == name and len(name) == len(want)]
                if alt:
                    model.deferred.remove(alt[0])
                    model.deferred.insert(0, eidx)
                    model.cur = ('deferred', alt[0])
                    eidx, want = alt[0], name
            if name != want or d['fake'] != efake:
                sh.violation('C15-wrong-entry:%s:%s:%s' % (tag, pre_state, 'fake' if efake else 'real'),
                             'history %s policy %d: step %d returned %r fake=%d, model expects %r fake=%d'
                             % (list(history), policy, k, name, d['fake'], want, efake), archive)
                return
            n = model.norm[eidx]
            if d['method'] != n['method'] or d['size'] != n['size'] or d['crc'] != n['crc'] or d['symlink'] != n['symlink']:
                sh.violation('C15-header-fields:%s' % tag, 'history %s: step %d header fields differ for %r' % (list(history), k, want), archive)
                return
        elif op in ('R1', 'R5', 'RA'):
            exp = model.read({'R1': 1, 'R5': 5, 'RA': 1 << 62}[op])
            if d['data'] != exp[1]:
                sh.violation('C15-bytes:%s:%s' % (tag, pre_state), 'history %s policy %d: step %d (%s) delivered %r, model expects %r'
                             % (list(history), policy, k, op, (d['data'] or b'')[:24], exp[1][:24]), archive)
                return
        elif op == 'C':
            exp = model.check()
            if d['result'] != exp[1]:
                sh.violation('C15-check:%s:%s' % (tag, pre_state), 'history %s: step %d check returned %d, model expects %d'
                             % (list(history), k, d['result'], exp[1]), archive)
                return
        else:
            exp = model.extract(None if op == 'X' else b'out_%d' % k)
            if d['result'] != exp[1]:
                sh.violation('C15-extract:%s:%s' % (tag, pre_state), 'history %s policy %d: step %d extract returned %d, model expects %d'
                             % (list(history), policy, k, d['result'], exp[1]), archive)
                return
    for s in states:
        sh.hist('state_op_pairs', '%s/%s' % s)


def shard_hist(seed, name, members, policy, histories, kind):
    sh = core.Shard()
    a = arc.archive(members)
    cases = [rdh.RCase(a, [OPCODE[o] for o in h], kind=kind, policy=policy, flags=rdh.F_FULLDATA | rdh.F_HDRPATHS, meta=h) for h in histories]

    def on_crash(case, cls, key, err):
        sh.violation('C15-crash:' + key, 'history %s on %s: %s: %s' % (list(case.meta), name, cls, err[-800:]), case.archive)
    res = rdh.run_batch(_EXE, cases, sh, label='c15', on_crash=on_crash)
    for c in cases:
        ev = res.get(c.id)
        sh.evaluated(name.encode() + repr((policy, c.meta, kind)).encode(), nontrivial=len(set(c.meta)) > 1)
        if ev is None:
            continue
        if rdh.outcap_hit(ev):
            sh.count('abandoned_at_output_cap')
            continue
        if rdh.budget_hit(ev):
            sh.violation('C15-no-return:' + name, 'history %s did not return within the step budget' % (list(c.meta),), c.archive)
            continue
        compare(sh, name, members, policy, c.meta, ev, a)
    sh.hist('histories_by_policy', policy, len(cases))
    sh.sample({'archive': name, 'policy': policy, 'history': list(histories[len(histories) // 2])})
    return sh


def shard_random(seed, n, maxlen):
    sh = core.Shard()
    rnd = random.Random(seed)
    cases, meta = [], []
    for i in range(n):
        members = random_archive(rnd)
        a = arc.archive(members)
        policy = rnd.choice([0, 1, 2, 3])
        h = ['N']
        mode = None
        for _ in range(rnd.randrange(2, maxlen)):
            o = rnd.choice(OPS + ['N', 'N', 'X', 'X'])
            if o == 'N':
                mode = None
            elif o in ('R1', 'R5', 'RA'):
                if mode not in (None, 'r'):
                    continue
                mode = 'r'
            else:
                if mode is not None:
                    continue
                mode = 'd'
            h.append(o)
        h += ['N'] * rnd.choice([0, 3, 12])
        kind = rnd.choice([0, 1, 2, 3])
        cases.append(rdh.RCase(a, [OPCODE[o] for o in h], kind=kind, policy=policy, flags=rdh.F_FULLDATA | rdh.F_HDRPATHS, meta=tuple(h)))
        meta.append((members, policy, a))

    def on_crash(case, cls, key, err):
        sh.violation('C15-crash:' + key, 'history %s: %s: %s' % (list(case.meta), cls, err[-800:]), case.archive)
    res = rdh.run_batch(_EXE, cases, sh, label='c15r', on_crash=on_crash)
    for c, (members, policy, a) in zip(cases, meta):
        ev = res.get(c.id)
        sh.evaluated(a + repr((policy, c.meta, c.kind)).encode(), nontrivial=len(c.meta) > 3)
        if ev is None:
            continue
        if rdh.outcap_hit(ev):
            sh.count('abandoned_at_output_cap')
            continue
        if rdh.budget_hit(ev):
            sh.violation('C15-no-return:random', 'history %s did not return within the step budget' % (list(c.meta),), a)
            continue
        compare(sh, 'random', members, policy, c.meta, ev, a)
        sh.hist('random_by_stream_kind', rdh.KIND_NAMES[c.kind])
    return sh


def _dispatch(fn, a):
    return fn(*a)


def run(ctx):
    global _EXE
    b = build.Builder()
    _EXE = b.harness('asan', 'reader', ['h_reader.c'], wrap_alloc=True)
    rnd = random.Random(ctx.seed)
    depth = 5 if ctx.tier == 'quick' else 7
    hs = legal_histories(depth)
    for d in range(2, depth):
        hs += legal_histories(d)
    ctx.cov['exhaustive_depth'] = depth
    ctx.cov['legal_histories_per_archive_policy'] = len(hs)
    args = []
    nchunk = 4 if ctx.tier == 'quick' else 12
    for name, members in fixed_archives(rnd):
        for policy in (0, 1, 2):
            for ci in range(nchunk):
                args.append((shard_hist, (ctx.seed, name, members, policy, hs[ci::nchunk], 2 if ci % 2 else 0)))
    # deferred-link ladders: three or four dangerous links of different (and equal) stored lengths in every order, each skipped,
    # extracted with the header path, or extracted to an explicit output name (whose length has nothing to do with the stored
    # path); then the re-presented entries are drained and extracted.  Longest stored path first, whatever the output names were.
    names = [b'l', b'link_bb', b'sub/dir/link_cccccc', b'link_dd']
    nlad = 0
    for perm in itertools.permutations(range(4), 3 if ctx.tier == 'quick' else 4):
        ms = [arc.dir_member(b'sub/', level=2, perms=0o40755), arc.dir_member(b'sub/dir/', level=1, perms=0o40755)]
        ms += [arc.symlink_member(names[j], rnd.choice([b'..', b'../up', b'/abs/t']), level=(j + nlad) % 4) for j in perm]
        hl = []
        for opsel in itertools.product(('', 'X', 'XN'), repeat=len(perm)):
            if sum(1 for o in opsel if o) < 2:
                continue
            h = ['N', 'X', 'N', 'X']
            for o in opsel:
                h += ['N'] + ([o] if o else [])
            h += ['N', 'X'] * (len(perm) + 2) + ['N']
            hl.append(tuple(h))
        nlad += 1
        args.append((shard_hist, (ctx.seed, 'danger-ladder-%s' % ''.join(map(str, perm)), ms, nlad % 3, hl, 2 if nlad % 2 else 0)))
    ctx.cov['deferred_ladder_archives'] = nlad
    nr = 1000 if ctx.tier == 'quick' else 12000
    for i in range(8):
        args.append((shard_random, (ctx.seed * 97 + i, nr, 14)))
    core.run_shards(ctx, _dispatch, args)
    cut_member_part(ctx, rnd)
    multi_part(ctx, b, rnd)
    ctx.cov['exhaustive'] = True
    ctx.cov['exhaustive_subspace'] = ('all legal op sequences of length <= %d over {next, read(1), read(5), read-all, check, extract, extract-named} '
                                      'on five fixed archives (incl. directories without any metadata and sibling directories differing only in letter case) x 3 directory policies' % depth)
    ctx.cov['rule'] = ('histories obey the side conditions (<= 1 decode operation per member, <= 1 extract per entry); exhaustive to the depth '
                       'bound on fixed archives, deferred-link ladders (3-4 dangerous links in every order x {skip, extract, extract to an explicit name} per link), seeded random on generated ones (2-6 members, all methods, nested dirs, safe/dangerous links, 4 '
                       'stream kinds); distinct by (archive, policy, history, stream kind); non-trivial = uses at least two different operations')


def cut_member_part(ctx, rnd):
    """A last member whose compressed data stops short (inside a command, at several offsets, every method) - because the archive
    ends early, or because the member's own packed size says so - behind a first member A.  Whatever bytes such a member yields, they are a function of the archive: read after A was read to the
    end, read partly, checked, or skipped - each history in a process of its own, so that nothing but the archive and the history
    differs - the bytes of the cut member must be the same.  (No reference model is needed for what the bytes are.)"""
    from concurrent.futures import ThreadPoolExecutor
    from ..lhamodel import header as H
    hist = {'read': [(rdh.OP_NEXT, 0), (rdh.OP_READALL, 0), (rdh.OP_NEXT, 0), (rdh.OP_READALL, 0)],
            'skipped': [(rdh.OP_NEXT, 0), (rdh.OP_NEXT, 0), (rdh.OP_READALL, 0)],
            'checked': [(rdh.OP_NEXT, 0), (rdh.OP_CHECK, 0), (rdh.OP_NEXT, 0), (rdh.OP_READALL, 0)],
            'read-1': [(rdh.OP_NEXT, 0), (rdh.OP_READ, 1), (rdh.OP_NEXT, 0), (rdh.OP_READALL, 0)]}
    jobs = []
    for m in streams.ALL_METHODS:
        mb, lvl, os_t = (b'-lh7-', 1, 0x20) if m == '-lk7-' else (m.encode(), rnd.choice([0, 1, 2]), ord('U'))
        for rep in range((4 if m == '-lz5-' else 2) if ctx.tier == 'quick' else 12):
            a = arc.file_member(rnd, m, b'a.bin', size=rnd.choice([30, 200]), level=lvl if m == '-lk7-' else rnd.choice([0, 1, 2]))
            packed, plain, _ = streams.valid_stream(rnd, m, rnd.choice([6, 40]))
            if m == '-lz5-':
                # the byte-oriented method: make the stream end in a copy command, so that the cut one byte before the end falls
                # between the two bytes of a command
                from ..lhamodel import larc
                cmds = larc.gen_cmds(rnd, m, rnd.choice([1, 6, 40])) + [('P', rnd.randrange(4096), rnd.choice([3, 9, 18]))]
                packed, plain = larc.serialise_lz5(cmds, rnd), larc.expand_lz5(cmds)
            if len(packed) < 2:
                continue
            cuts = sorted(set([len(packed) - 1, len(packed) - 2, len(packed) // 2, 1] + [rnd.randrange(1, len(packed)) for _ in range(2)]))
            for cut in cuts:
                if cut < 1:
                    continue
                mB = H.simple_member(b'b.bin', plain, level=lvl, method=mb, os_type=os_t, packed=packed[:cut])
                mB['packed_field'] = None
                mB.pop('packed_field')
                A1 = H.build(a.m) + H.build_header(dict(mB, data=packed))[0] + packed[:cut]       # header promises all of it; the file ends early
                A2 = H.build(a.m) + H.build(dict(mB, data=packed[:cut])) + b'\0'                  # the member's own data stops inside a command
                for A in (A1, A2):
                    for hn, ops in hist.items():
                        jobs.append((m, cut, len(packed), hn, A, ops, None))
                    # and the same history twice with stack and fresh heap blocks pre-filled differently (see C14's differential)
                    jobs.append((m, cut, len(packed), 'read, memory pre-filled 00', A, hist['read'], dech.fill_env(0x00)))
                    jobs.append((m, cut, len(packed), 'read, memory pre-filled a5', A, hist['read'], dech.fill_env(0xa5)))

    def one(j):
        m, cut, total, hn, A, ops, env = j
        sh = core.Shard()
        c = rdh.RCase(A, ops, kind=rnd_kind[cut % 2], flags=rdh.F_FULLDATA, meta=hn)
        res = rdh.run_batch(_EXE, [c], sh, label='c15cut%d' % jobno[id(j)], on_crash=lambda c_, cls, key, err: sh.violation('C15-crash:' + key, err[-600:], c_.archive),
                            env_extra=env)
        ev = res.get(c.id) or []
        d = [dd for k, dd in ev if k == 'readall']
        return j, sh, (d[-1]['data'] if d else None)
    rnd_kind = (0, 2)
    jobno = {id(j): n for n, j in enumerate(jobs)}          # a scratch directory of its own for every run (the runs share this process id)
    groups = {}
    with ThreadPoolExecutor(max_workers=16) as ex:
        for j, sh, data in ex.map(one, jobs):
            core.merge_shard(ctx, sh)
            groups.setdefault((j[0], j[4]), {})[j[3]] = data
            ctx.count('cut_member_runs')
    for (m, A), by in groups.items():
        ctx.cov['evaluations'] += 1
        vals = {hn: d for hn, d in by.items() if d is not None}
        if len(set(vals.values())) > 1:
            ref = vals.get('skipped', next(iter(vals.values())))
            diff = [hn for hn, d in vals.items() if d != ref]
            ctx.violation('C15-cut-member-bytes-depend-on-history:' + m, 'the last member (%s, data cut short by the end of the archive) yields different bytes depending on '
                          'what was done with the member before it: %s' % (m, ', '.join('%s -> %s' % (hn, (d[:8].hex() + '..') if d else d) for hn, d in sorted(vals.items()))), A)
        ctx.count('cut_member_archives')


# ---------------------------------------------------------------------------------------------------------------
def multi_part(ctx, b, rnd):
    """Two readers interleaved in one thread (all interleavings of two short histories) and N threads with private
    readers under TSan; each reader's log must equal its solo log."""
    exe_asan = b.harness('asan', 'multi', ['h_multi.c'])
    exe_tsan = b.harness('tsan', 'multi', ['h_multi.c'])
    sc = os.path.join(build.scratch_root(), 'c15multi')
    os.makedirs(sc, exist_ok=True)
    short = [h for h in legal_histories(4) if 'X' not in h] if ctx.tier == 'thorough' else \
        [h for h in legal_histories(3) if 'X' not in h]
    archives = [arc.archive(random_archive(rnd)) for _ in range(6)]

    def script(a, h, kind=2):
        ops = [OPCODE[o] for o in h]
        return struct.pack('<III', kind, len(ops), len(a)) + b''.join(struct.pack('<II', o, x) for o, x in ops) + a

    def run_multi(exe, mode, scripts, schedule=b'', rounds=1, env=None):
        p = os.path.join(sc, 'in.%d' % os.getpid())
        with open(p, 'wb') as f:
            f.write(struct.pack('<III', len(scripts), len(schedule), rounds))
            f.write(schedule)
            for s in scripts:
                f.write(s)
        # a fresh, empty working directory per run: files left by an earlier run must not look like interference
        wd = os.path.join(sc, 'wd')
        shutil.rmtree(wd, ignore_errors=True)
        os.makedirs(wd)
        r = subprocess.run([exe, mode, p, wd], capture_output=True, env=build.san_env(env))
        return r
    # solo logs
    def logs_of(stdout):
        out = {}
        cur = None
        for line in stdout.decode('latin1').split('\n'):
            if line.startswith('READER '):
                cur = []
                out[int(line.split()[1])] = cur
            elif cur is not None and line and not line.startswith(('DONE', 'THREADS')):
                cur.append(line)
        return out
    n_inter = 0
    pairs = [(rnd.choice(short), rnd.choice(short)) for _ in range(40 if ctx.tier == 'quick' else 400)]
    for h1, h2 in pairs:
        a1, a2 = rnd.choice(archives), rnd.choice(archives)
        s1, s2 = script(a1, h1), script(a2, h2)
        solo = []
        for s in (s1, s2):
            r = run_multi(exe_asan, 'interleave', [s], bytes([0] * 64))
            if r.returncode != 0:
                raise core.HarnessFailure('h_multi solo failed: ' + r.stderr.decode('latin1')[-500:])
            solo.append(logs_of(r.stdout)[0])
        # every interleaving of the two op sequences
        n1, n2 = len(h1), len(h2)
        for comb in itertools.combinations(range(n1 + n2), n1):
            sched = bytearray([1] * (n1 + n2))
            for c in comb:
                sched[c] = 0
            r = run_multi(exe_asan, 'interleave', [s1, s2], bytes(sched))
            n_inter += 1
            if r.returncode != 0:
                err = r.stderr.decode('latin1')
                cls, key, is_lhasa = dech.classify_crash(err, r.returncode)
                if not is_lhasa:
                    raise core.HarnessFailure('h_multi failed: ' + err[-600:])
                ctx.violation('C15-two-readers-crash:' + key, 'interleaving %s of %s / %s: %s' % (list(sched), h1, h2, err[:800]), a1 + b'||' + a2)
                continue
            lg = logs_of(r.stdout)
            for k in (0, 1):
                if lg.get(k) != solo[k]:
                    ctx.violation('C15-two-readers-interfere', 'reader %d with history %s gave a different log when interleaved (%s) with another reader running %s'
                                  % (k, (h1, h2)[k], list(sched), (h2, h1)[k]), a1 + b'||' + a2)
    ctx.cov['two_reader_interleavings'] = n_inter
    ctx.cov['evaluations'] += n_inter
    # threads under TSan
    rounds = 200 if ctx.tier == 'quick' else 20000
    nthreads = 8
    long_h = []
    for t in range(nthreads):
        h = ['N']
        for _ in range(12):
            h.append(rnd.choice(['N', 'N', 'RA', 'C', 'R5', 'XN']))
            if h[-1] != 'N':
                h.append('N')
        long_h.append(tuple(h))
    # every thread decodes members of *every* method at the same time, so a static/global in any decoder is shared
    def all_methods_archive():
        ms = [arc.file_member(rnd, m, b'm%d' % i, size=rnd.choice([40, 300]), level=rnd.randrange(4)) for i, m in enumerate(streams.ALL_METHODS)]
        rnd.shuffle(ms)
        return arc.archive(ms)
    long_h = []
    for t in range(nthreads):
        h = []
        for i in range(len(streams.ALL_METHODS)):
            h += ['N', rnd.choice(['RA', 'C', 'RA', 'XN'])]
        long_h.append(tuple(h + ['N', 'N']))
    scripts = [script(all_methods_archive(), h, kind=rnd.choice([2, 3])) for h in long_h]
    solo = []
    for s in scripts:
        r = run_multi(exe_asan, 'interleave', [s], bytes([0] * 200))
        solo.append(logs_of(r.stdout)[0])
    batches = 1 if ctx.tier == 'quick' else 16
    reports = 0
    for bi in range(batches):
        r = run_multi(exe_tsan, 'threads', scripts, rounds=rounds // batches, env={'TSAN_OPTIONS': 'halt_on_error=0:exitcode=66'})
        err = r.stderr.decode('latin1')
        if 'ThreadSanitizer' in err:
            blocks = err.split('WARNING: ThreadSanitizer')[1:]
            for blk in blocks:
                reports += 1
                # A report is about lhasa only if the racing *access* is in lhasa code: for every access stack of the
                # report take the innermost frame that is not a sanitizer interceptor; if that frame is inside libc
                # (e.g. mktime -> tzset_internal, which is serialised by a libc-internal lock TSan cannot see) the report is
                # a known artefact of uninstrumented synchronisation, not a race in lhasa.
                stacks = re.split(r'\n\s*\n', blk)
                access_sites = []
                for st in stacks:
                    if not re.search(r'(Write|Read|Previous write|Previous read|Atomic write|Atomic read) of size', st):
                        continue
                    fr = re.findall(r'#\d+ (\S+) (\S+?):\d+(?::\d+)? \((\S+?)\+', st)
                    site = None
                    nontsan = [(fn, path, mod) for fn, path, mod in fr if not mod.startswith('libtsan')]
                    if nontsan:
                        site = nontsan[0]
                        if site[1].startswith(build.HARNESS):
                            # a harness stream callback writing into a buffer lhasa handed to it: the location is lhasa's
                            deeper = [x for x in nontsan[1:] if x[1].startswith(build.REPO + '/')]
                            if deeper:
                                site = deeper[0]
                    if site:
                        access_sites.append(site)
                repo = [fn for fn, path, mod in access_sites if path.startswith(build.REPO + '/')]
                harness = [fn for fn, path, mod in access_sites if path.startswith(build.HARNESS)]
                if repo:
                    ctx.violation('C15-tsan:' + ':'.join(sorted(set(repo))[:2]), 'ThreadSanitizer: racing access in lhasa code while %d threads ran private readers:%s'
                                  % (nthreads, blk[:1500]), err, ext='txt')
                elif harness:
                    raise core.HarnessFailure('TSan report in harness code: ' + blk[:800])
                else:
                    ctx.count('tsan_reports_inside_libc_ignored')
        elif r.returncode != 0:
            raise core.HarnessFailure('h_multi threads failed rc=%d: %s' % (r.returncode, err[-600:]))
        m = re.search(r'THREADS rounds=(\d+) mismatches=(\d+)', r.stdout.decode('latin1'))
        if not m:
            raise core.HarnessFailure('no THREADS summary')
        if int(m.group(2)):
            ctx.violation('C15-threads-results-differ', '%s of %s thread-rounds produced a log different from the first round' % (m.group(2), m.group(1)),
                          r.stdout[:4000], ext='txt')
        lg = logs_of(r.stdout)
        for k in range(nthreads):
            if lg.get(k) != solo[k]:
                ctx.violation('C15-threads-vs-solo', 'thread %d log differs from its solo run' % k, (('\n'.join(lg.get(k, [])) + '\n---\n' + '\n'.join(solo[k]))), ext='txt')
    ctx.cov['thread_rounds'] = rounds
    ctx.cov['threads'] = nthreads
    ctx.cov['tsan_reports'] = reports
    ctx.cov['evaluations'] += rounds * nthreads


def replay(ctx, path):
    run(ctx)
