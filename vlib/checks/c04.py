"""C04 - PMarc -pm1-/-pm2-: decode(serialise(commands)) == expand(commands) with MTF-coded bytes,
pm2 table re-reads at 1/2/4/8 KiB and every 4 KiB after (also in the middle of a copy), pm1
position-dependent copy codes; a pm1 stream that ends early continues as zero bits."""
import random
from .. import build, core, dech
from ..lhamodel import pmarc

LEVEL = 'exploration'
_EXE = None
REQ_PM2 = ['copy-before-start', 'code-single', 'off-empty', 'off-single', 'off-multi5', 'off-multi6', 'off-multi7', 'off-multi8', 'midcopy',
           'stage1', 'stage2', 'stage3', 'stage4', 'stage5', 'reread-0', 'reread-1'] + ['hist%d' % i for i in range(8)] \
    + ['copy%d' % i for i in range(0, 21)] + ['offw%d' % i for i in range(6, 13)]
REQ_PM1 = ['range%d' % i for i in range(6)] + ['end-in-block', 'zero-tail-cut', 'blocklen-1', 'blocklen-216', 'blocklen-215',
                                                'w3_8', 'w3_9', 'w4_8', 'w4_9', 'w4_10', 'w4_11', 'w5_8', 'w5_9', 'w5_10',
                                                'w5_11', 'w5_12', 'w5_13'] + ['at-%d' % t for t in pmarc.PM1_THRESHOLDS[:-1]] \
    + ['top-at-%d%s' % (t, k) for t in pmarc.PM1_THRESHOLDS[:-1] for k in ('', '-1')]


def run_cases(sh, cases, expect, label):
    def on_crash(case, cls, key, err):
        sh.violation('C04-crash:' + key, 'decoding a well-formed %s stream ended in %s: %s' % (case.method, cls, err[-1200:]), case.stream)
    res = dech.run_batch(_EXE, cases, sh, label=label, on_crash=on_crash)
    for c, exp in zip(cases, expect):
        r = res.get(c.id)
        if r is None:
            continue
        if r.out != exp:
            k = next((i for i in range(min(len(exp), len(r.out))) if exp[i] != r.out[i]), min(len(exp), len(r.out)))
            sh.violation('C04-mismatch:%s:%s' % (c.method, c.meta['tag']),
                         '%s stream (%s): decoded %d bytes, expected %d, first difference at output byte %d'
                         % (c.method, c.meta, len(r.out), len(exp), k), c.stream)


def shard_pm2(seed, n):
    sh = core.Shard()
    rnd = random.Random(seed)
    cases, expect = [], []
    targets = [10, 900, 1100, 2100, 4200, 8300, 13000, 17000, 20600]
    for i in range(n):
        feat = set()
        directed = i < 3
        tgt = targets[i % len(targets)] if i < 2 * len(targets) else rnd.choice(targets)
        prefill = (i % 3 == 2)
        cmds = pmarc.pm2_gen(rnd, tgt, mtf_directed=directed, prefill=prefill)
        if prefill:
            feat.add('copy-before-start')
        if i % 7 == 3:
            # a long copy placed so that it straddles a table re-read point
            cmds = [('B', rnd.randrange(256)) for _ in range(rnd.choice([1000, 2030, 4090, 8100, 12200]))] \
                + [('C', rnd.choice([1, 5, 900]), rnd.choice([64, 129, 256]))] + pmarc.pm2_gen(rnd, 300)[1:]
            cmds = [c for c in cmds]
        end_on = None
        if i in (5, 6, 7, 8):
            # output that ends exactly on a table re-read point (1, 2, 4, 8 KiB), with and without the tables behind it
            end_on = (1024, 2048, 4096, 8192)[i - 5]
            cmds = pmarc.pm2_gen(rnd, end_on - 300)
            have = len(pmarc.expand_pm(cmds))
            while have > end_on - 2:
                cmds.pop()
                have = len(pmarc.expand_pm(cmds))
            cmds += [('B', rnd.randrange(256)) for _ in range(end_on - have - 2)] + [('C', 1, 2) if seed % 2 else ('B', 7), ('B', 9)][:2]
            cmds = cmds[:-1] if len(pmarc.expand_pm(cmds)) > end_on else cmds
            while len(pmarc.expand_pm(cmds)) < end_on:
                cmds.append(('B', rnd.randrange(256)))
        if i == 4:
            # every distance the 8 KiB window permits, once each
            cmds = [('B', (k * 61 + (k >> 8)) & 0xff) for k in range(8300)] + [('C', d, 3 + (d % 4)) for d in range(1, 8193)]
        if i in range(9, 17):
            # the entry count of the code table at its thresholds (8/9: bytes only and the 2-byte copy, 10: the first code that looks
            # up an offset, 29: all meaningful codes, 30/31: the count field's full width), forced for every table of the stream;
            # streams of bytes and short copies, so that every one of these counts is a legal spelling
            pmarc.FORCE_NC = (8, 9, 10, 11, 12, 29, 30, 31)[i - 9]
            cmds = []
            for _ in range(rnd.choice([30, 1500, 5000])):
                cmds.append(('B', rnd.randrange(256)) if rnd.random() < 0.8 or not cmds else ('C', 1, 2))
        exp = pmarc.expand_pm(cmds)
        stream, marks = pmarc.pm2_serialise(cmds, rnd, feat, omit_final_reread=(end_on is not None and seed % 3 != 0))
        pmarc.FORCE_NC = None
        c = dech.Case('-pm2-', stream, len(exp), sched=[rnd.choice([1, 100, 256, 5000])] if rnd.random() < 0.3 else [], in_chunk=rnd.choice([0, 0, 1, 3, 7]),
                      meta={'tag': 'mtf-directed' if directed else 'every-distance' if i == 4 else 'random', 'features': sorted(feat)})
        cases.append(c)
        expect.append(exp)
        sh.evaluated(stream, nontrivial=any(f.startswith('copy') for f in feat) and len(exp) > 1024)
        for f in feat:
            sh.hist('pm2_features', f)
        sh.count('output_bytes', len(exp))
    run_cases(sh, cases, expect, 'c04pm2')
    sh.sample({'method': '-pm2-', 'stream_hex': cases[0].stream.hex()[:200], 'expected_hex': expect[0].hex()[:100]})
    return sh


def shard_pm1(seed, n, trees):
    sh = core.Shard()
    rnd = random.Random(seed)
    cases, expect = [], []
    tg = [30, 70, 330, 600, 850, 1100, 1700, 2700, 3000, 3700, 4700, 6800, 12000]
    k = 0
    for tree in trees:
        for i in range(n):
            feat = set()
            near = None
            if i % 3 == 1:
                near = pmarc.PM1_THRESHOLDS[k % (len(pmarc.PM1_THRESHOLDS) - 1)]
                k += 1
                tgt = near + rnd.choice([5, 300])
            else:
                tgt = rnd.choice(tg)
            stream, exp = pmarc.pm1_gen_and_serialise(rnd, tree, tgt, feat, near_threshold=near)
            if rnd.random() < 0.3:
                s2 = stream.rstrip(b'\0')
                if len(s2) < len(stream):
                    feat.add('zero-tail-cut')
                    stream = s2
            # the source of compressed bytes may hand them over in pieces of 1, 2, 3 or 7 bytes (a short read is not the end)
            chunk = rnd.choice([0, 0, 1, 2, 3, 7])
            if chunk:
                feat.add('input-in-pieces')
            cases.append(dech.Case('-pm1-', stream, len(exp), in_chunk=chunk, meta={'tag': 'tree%d' % tree, 'features': sorted(feat)}))
            expect.append(exp)
            sh.evaluated(stream, nontrivial=any(f.startswith('range') for f in feat))
            for f in feat:
                sh.hist('pm1_features', f)
            sh.hist('pm1_start_trees', tree)
            sh.count('output_bytes', len(exp))
    run_cases(sh, cases, expect, 'c04pm1')
    sh.sample({'method': '-pm1-', 'tree': trees[0], 'stream_hex': cases[0].stream.hex()[:200], 'expected_hex': expect[0].hex()[:100]})
    return sh


def shard_pm1_directed(seed):
    """For every position threshold t: a copy with the largest encodable distance issued at output
    position exactly t and exactly t-1 (the two sides of every '<' in the width schedule)."""
    sh = core.Shard()
    rnd = random.Random(seed)
    cases, expect = [], []
    for ti, t in enumerate(pmarc.PM1_THRESHOLDS[:-1]):
        for k in (0, 1):
            for rep in range(2):
                feat = set()
                tree = (ti * 5 + k * 3 + rep * 11 + seed) % 32
                stream, exp = pmarc.pm1_gen_and_serialise(rnd, tree, t + 40, feat, near_threshold=t, near_k=k, near_top=True)
                cases.append(dech.Case('-pm1-', stream, len(exp), meta={'tag': 'threshold-%d-k%d' % (t, k), 'features': sorted(feat)}))
                expect.append(exp)
                sh.evaluated(stream, nontrivial=True)
                for f in feat:
                    sh.hist('pm1_features', f)
                sh.hist('pm1_start_trees', tree)
    run_cases(sh, cases, expect, 'c04pm1d')
    return sh


def shard_pm1_zero_tail(seed, n):
    """'A -pm1- stream that ends before the declared length is continued as if followed by zero bits': for a valid stream S,
    decoding S with a declared length far beyond what S denotes must give the same bytes as decoding S followed by explicit
    zero bytes (enough of them that the input never runs out), for extensions from 1 byte to 20 000 bytes.  Also S with its own
    trailing zero bytes stripped must still give what S denotes."""
    sh = core.Shard()
    rnd = random.Random(seed)
    cases, groups = [], []
    for i in range(n):
        tree = rnd.randrange(32)
        stream, exp = pmarc.pm1_gen_and_serialise(rnd, tree, rnd.choice([30, 70, 330, 1100]), set())
        for extra in (1, 9, 40, 200, 3000, 20000)[i % 2::2] + (7,):
            decl = len(exp) + extra
            a = dech.Case('-pm1-', stream, decl, meta={'tag': 'zero-tail-implicit', 'features': []})
            b = dech.Case('-pm1-', stream + bytes(3 * extra + 64), decl, meta={'tag': 'zero-tail-explicit', 'features': []})
            cases += [a, b]
            groups.append((a, b, exp, extra))
        stripped = stream.rstrip(b'\0')
        if len(stripped) < len(stream):
            c = dech.Case('-pm1-', stripped, len(exp), meta={'tag': 'trailing-zero-bytes-stripped', 'features': []})
            cases.append(c)
            groups.append((c, None, exp, 0))
            sh.count('pm1_streams_with_trailing_zero_bytes_stripped')

    def on_crash(case, cls, key, err):
        sh.violation('C04-crash:' + key, 'decoding a -pm1- stream past its end ended in %s: %s' % (cls, err[-1000:]), case.stream)
    res = dech.run_batch(_EXE, cases, sh, label='c04z', on_crash=on_crash)
    for a, b, exp, extra in groups:
        ra = res.get(a.id)
        rb = res.get(b.id) if b is not None else None
        if ra is None or (b is not None and rb is None):
            continue
        sh.evaluated(a.stream + repr((a.declared, a.meta['tag'])).encode(), nontrivial=True)
        sh.hist('pm1_zero_continuation_bytes', extra)
        if b is None:
            if ra.out != exp:
                sh.violation('C04-mismatch:-pm1-:trailing-zero-bytes-stripped', '-pm1- stream with its trailing zero bytes removed decoded to %d bytes, the full stream '
                             'denotes %d' % (len(ra.out), len(exp)), a.stream)
            continue
        if ra.out[:len(exp)] != exp or rb.out[:len(exp)] != exp:
            sh.violation('C04-mismatch:-pm1-:zero-tail-prefix', 'the bytes the stream denotes are not the first %d bytes decoded' % len(exp), a.stream)
        elif ra.out != rb.out:
            k = next((i for i in range(min(len(ra.out), len(rb.out))) if ra.out[i] != rb.out[i]), min(len(ra.out), len(rb.out)))
            sh.violation('C04-zero-continuation', '-pm1- stream of %d bytes, declared length %d (+%d beyond what it denotes): %d bytes when the input simply ends, '
                         '%d bytes when followed by explicit zero bytes; first difference at %d' % (len(a.stream), a.declared, extra, len(ra.out), len(rb.out), k), a.stream)
        elif len(rb.out) != a.declared:
            sh.violation('C04-zero-continuation-short', '-pm1- followed by explicit zero bytes produced %d of the %d declared bytes' % (len(rb.out), a.declared), b.stream)
    return sh


def _dispatch(fn, a):
    return fn(*a)


def run(ctx):
    global _EXE
    b = build.Builder()
    _EXE = b.harness('asan', 'decode', ['h_decode.c'])
    args = []
    if ctx.tier == 'quick':
        for i in range(10):
            args.append((shard_pm2, (ctx.seed * 13 + i, 150)))
        for i in range(8):
            args.append((shard_pm1, (ctx.seed * 17 + i, 60, list(range(i * 4, i * 4 + 4)))))
    else:
        for i in range(32):
            args.append((shard_pm2, (ctx.seed * 13 + i, 2500)))
        for i in range(32):
            args.append((shard_pm1, (ctx.seed * 17 + i, 2500, [i])))
    args.append((shard_pm1_directed, (ctx.seed,)))
    for i in range(4 if ctx.tier == 'quick' else 32):
        args.append((shard_pm1_zero_tail, (ctx.seed * 23 + i, 40 if ctx.tier == 'quick' else 400)))
    core.run_shards(ctx, _dispatch, args)
    miss = [f for f in REQ_PM2 if f not in ctx.cov.get('pm2_features', {})] + \
           [f for f in REQ_PM1 if f not in ctx.cov.get('pm1_features', {})]
    if len(ctx.cov.get('pm1_start_trees', {})) != 32:
        miss.append('all-32-start-trees')
    ctx.cov['required_features_missing'] = miss
    if miss:
        raise core.HarnessFailure('workload did not reach required stream shapes: %s' % miss)
    ctx.cov['rule'] = ('streams from vlib/lhamodel/pmarc.py: pm2 with random complete code/offset tables at every stage and tables '
                       're-read in mid-copy; pm1 over all 32 start trees with copies steered to every position threshold; distinct by '
                       'stream bytes; pm1 zero continuation: the input simply ending vs. explicit zero bytes, 1 to 20 000 bytes past what the stream denotes; non-trivial = contains a copy command (pm2: and more than 1 KiB output so a re-read occurred)')
    ctx.assumptions += ['-pm2- copies that reach back before the first output byte are expected to read spaces (the LHA-family convention; the statement does not spell out the initial window); -pm1- copies are generated only from bytes already produced',
                        'no real -pm1- encoder exists; the model is a reading of the format']


def replay(ctx, path):
    run(ctx)
