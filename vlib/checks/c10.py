"""C10 - extraction never touches anything outside the extraction directory.
Monitor: harness/fsmon.c (LD_PRELOAD) logs every path-taking libc call of the tool with the target resolved at call time
and denies mutating calls that resolve outside the root.  The log is judged prefix by prefix:
  * every mutating operation resolves inside the extraction root;
  * once a symlink whose target is absolute or contains '..' exists, nothing but further symlink creations (and the unlink
    lha issues on the same path just before each) may follow; deferred links are created longest path first;
  * list / test / print / dry-run commands perform no mutating operation at all;
  * a symlink already present at an output file's final path component is replaced, never followed.
Second, independent oracle: a canary tree beside the root (owned by the same user, so the OS would allow damage) is
snapshotted before and after."""
import os, random, itertools, shutil, glob
from concurrent.futures import ThreadPoolExecutor
from .. import build, core, cli, arc, fsmon
from ..lhamodel import header as H
from ..lhamodel.crc16 import crc16

LEVEL = 'exploration'
READONLY_CMDS = ['l', 'lv', 'v', 'vv', 't', 'p', 'pq', 'xn', 'en', 'pn', 'tq']
EXTRACT_OPTS = ['x', 'xf', 'xfi', 'xfw=sub', 'xq', 'e', 'xfq1', 'xfw=new/deep']


def raw_file(level, name=None, path=None, inhdr=None, data=b'DATA'):
    """file entry with raw control over the name channels"""
    m = dict(level=level, method=b'-lh0-', size=len(data), crc=crc16(data), data=data, os=ord('U'))
    if level in (0, 1):
        m['dostime'] = H.unix_to_dos(1000000000)
        m['name'] = inhdr if inhdr is not None else (path or b'') + (name or b'')
        if level == 1:
            m['exts'] = []
    else:
        m['time'] = 1000000000
        ex = []
        if name is not None:
            ex.append((1, name))
        if path is not None:
            ex.append((2, path))
        m['exts'] = ex
    return arc.Member(m, data, data)


def alphabet(canary):
    """name -> constructor(level, rnd) returning an arc.Member.  `canary` is the absolute path of the canary directory."""
    cb = canary.encode()
    A = {}
    A['file-a'] = lambda l, r: arc.file_member(r, '-lh5-', b'a', size=20, level=l)
    A['file-dotdot'] = lambda l, r: raw_file(l, name=b'x', path=b'..\xff' if l >= 2 else b'../', inhdr=b'../x')
    A['file-dotdot-deep'] = lambda l, r: raw_file(l, name=b'y', path=b'd\xff..\xff..\xff..\xff' if l >= 2 else None, inhdr=b'd/../../../y')
    A['file-abs'] = lambda l, r: raw_file(l, name=b'x', path=cb.replace(b'/', b'\xff') + b'\xff' if l >= 2 else None, inhdr=cb + b'/x')
    A['file-abs-canaryfile'] = lambda l, r: raw_file(l, name=b'precious.txt', path=cb.replace(b'/', b'\xff') + b'\xff' if l >= 2 else None, inhdr=cb + b'/precious.txt')
    A['file-in-dir'] = lambda l, r: arc.file_member(r, '-lz5-', b'f', size=10, level=l, path=b'd/')
    A['file-backslash-dotdot'] = lambda l, r: raw_file(l if l < 2 else 1, inhdr=b'd\\..\\..\\bs')
    A['file-ff-dotdot'] = lambda l, r: raw_file(max(l, 2), name=b'ff', path=b'd\xff..\xff..\xff')
    A['file-nul-in-path'] = lambda l, r: raw_file(max(l, 2), name=b'n', path=b'p\x00\xff..\xff..\xff')
    A['file-slash-in-extname'] = lambda l, r: raw_file(max(l, 2), name=b'../../sl')
    A['dir-d'] = lambda l, r: arc.dir_member(b'd/', level=l, perms=r.choice([0o40755, 0o40555]))
    A['dir-dotdot'] = lambda l, r: arc.Member(dict(H.dir_member(b'd/', level=max(l, 2)), exts=[(2, b'..\xffdd\xff'), (0x50, H.u16(0o40755))]), b'', b'', kind='dir')
    A['link-safe'] = lambda l, r: arc.symlink_member(b'l', b'd', level=l)
    A['link-abs-canary'] = lambda l, r: arc.symlink_member(b'l', cb, level=l)
    A['link-up-canary'] = lambda l, r: arc.symlink_member(b'l2', b'../' + os.path.basename(canary).encode(), level=l)
    A['link-in-dir-up'] = lambda l, r: arc.symlink_member(b'd/l', b'..', level=l)
    A['link-sneaky-up'] = lambda l, r: arc.symlink_member(b'l3', b'a/../..', level=l)
    A['file-through-l'] = lambda l, r: raw_file(l, name=b'f', path=b'l\xff' if l >= 2 else None, inhdr=b'l/f')
    A['file-through-l2'] = lambda l, r: raw_file(l, name=b'precious.txt', path=b'l2\xff' if l >= 2 else None, inhdr=b'l2/precious.txt')
    A['dir-named-l'] = lambda l, r: arc.dir_member(b'l/', level=l, perms=0o40755)
    A['link-equal-len-A'] = lambda l, r: arc.symlink_member(b'eqA', b'../u', level=l)
    A['link-equal-len-B'] = lambda l, r: arc.symlink_member(b'eqB', b'/v', level=l)
    A['link-to-link'] = lambda l, r: arc.symlink_member(b's', b'l', level=l)
    A['file-through-s'] = lambda l, r: raw_file(l, name=b'f', path=b's\xff' if l >= 2 else None, inhdr=b's/f')
    A['link-long-path'] = lambda l, r: arc.symlink_member(b'd/deeper-link-name', b'../../' + os.path.basename(canary).encode(), level=l)
    return A


def judge(ctx_v, evs, root, cmd, tag, archive, readonly):
    """ctx_v(key, what) records a violation."""
    stats = {'events': len(evs), 'mutating': 0, 'symlinks': 0, 'dangerous': 0, 'after_dangerous': 0, 'dangerous_attempts': 0}
    dangerous_seen = False
    last_deferred_len = None
    rb = root.encode()
    for i, e in enumerate(evs):
        if not e.mutating:
            continue
        stats['mutating'] += 1
        if readonly:
            ctx_v('C10-readonly-command-mutates:%s:%s' % (cmd.split('=')[0], e.call), "'lha %s' performed %r" % (cmd, e))
            continue
        if e.denied == 2:
            # an attempt the kernel would have refused whatever the target (unlink of a directory, exclusive creation of an existing
            # name, empty path): it could not have touched anything, so it is counted, not judged
            stats['no_effect_attempts'] = stats.get('no_effect_attempts', 0) + 1
            continue
        if e.denied or not (e.resolved == rb or (e.resolved or b'').startswith(rb + b'/')):
            ctx_v('C10-escape:%s:%s' % (e.call, tag), "'lha %s': %s on %r resolved to %r, outside the extraction root" % (cmd, e.call, e.arg, e.resolved))
            continue
        is_sym = e.call.startswith('symlink')
        if dangerous_seen:
            nxt = next((x for x in evs[i + 1:] if x.mutating), None)
            ok = is_sym or (e.call in ('unlink', 'remove') and nxt is not None and nxt.call.startswith('symlink') and nxt.arg == e.arg)
            if not ok:
                stats['after_dangerous'] += 1
                ctx_v('C10-op-after-dangerous-symlink:%s' % e.call, "'lha %s': %r was performed while a symlink with an absolute/'..' target already existed" % (cmd, e))
        if is_sym:
            stats['symlinks'] += 1
            if e.arg2 is not None and fsmon.is_dangerous_target(e.arg2):
                stats['dangerous_attempts'] += 1
            if e.ret == 0 and e.arg2 is not None and fsmon.is_dangerous_target(e.arg2):
                stats['dangerous'] += 1
                L = len(e.arg)
                # the order is defined on the *stored* path; with option i (paths flattened) or arbitrary mutated archives the
                # extraction argument is not a monotone image of it, so the order is only judged where it is
                order_judgeable = 'i' not in cmd[1:].split('w')[0] and tag not in ('mutated-corpus', 'deferred-ladder')
                if order_judgeable and last_deferred_len is not None and L > last_deferred_len:
                    ctx_v('C10-deferred-order', "'lha %s': deferred symlink %r (path length %d) created after a shorter one (%d)" % (cmd, e.arg, L, last_deferred_len))
                last_deferred_len = L
                dangerous_seen = True
    return stats


def one_run(job):
    """job: (n, tag, archive bytes, cmd, preexisting, base dir, exe, so) -> (violations, stats)"""
    n, tag, A, cmd, pre, base, exe, so = job[:8]
    viol = []
    d = os.path.join(base, 'r%d' % n)
    root = os.path.join(d, 'root')
    canary = os.path.join(d, 'canary')
    os.makedirs(d)
    cli.mkdir_for_nobody(root)
    cli.mkdir_for_nobody(canary)
    open(os.path.join(canary, 'precious.txt'), 'w').write('do not touch\n')
    os.makedirs(os.path.join(canary, 'sub'))
    open(os.path.join(canary, 'sub', 'ro.txt'), 'w').write('read only\n')
    os.chmod(os.path.join(canary, 'sub', 'ro.txt'), 0o444)
    for dp, dn, fn in os.walk(canary):
        for x in dn + fn:
            os.chown(os.path.join(dp, x), 65534, 65534)
            os.utime(os.path.join(dp, x), (946684800, 946684800))
    os.utime(canary, (946684800, 946684800))
    ap = os.path.join(root, 'a.lzh')
    open(ap, 'wb').write(A)
    os.chmod(ap, 0o644)
    # pre-existing symlinks at final path components (never symlinks to directories on a path)
    ro_parents = []
    if pre:
        for ent in pre:
            name, target = ent[0], ent[1]
            p = os.path.join(root, name)
            os.makedirs(os.path.dirname(p), exist_ok=True)
            os.chown(os.path.dirname(p), 65534, 65534)
            if not os.path.lexists(p):
                os.symlink(target.replace('CANARY', canary), p)
                os.lchown(p, 65534, 65534)
            if len(ent) > 2 and ent[2] == 'ro-parent':
                # the directory holding the link does not allow removing it (unlink fails), while the link's target is writable
                ro_parents.append(os.path.dirname(p))
        for d_ in ro_parents:
            os.chmod(d_, 0o555)
        pre = [(e[0], e[1]) for e in pre]
    before = fsmon.snapshot(canary)
    rc, so_, se, evs = fsmon.run_monitored(exe, so, [cmd, 'a.lzh'], root, stdin=b'y\ny\ny\ny\ny\ny\ny\ny\n')
    readonly = cmd.split('=')[0] in READONLY_CMDS or ('n' in cmd[1:].split('w')[0] and cmd[0] in 'xep')
    stats = judge(lambda k, w: viol.append((k, w)), evs, root, cmd, tag, A, readonly)
    after = fsmon.snapshot(canary)
    if after != before:
        ch = sorted(set(k for k in set(before) | set(after) if before.get(k) != after.get(k)))
        viol.append(('C10-canary-changed:%s' % tag, "'lha %s' changed the canary tree beside the extraction root: %s" % (cmd, ch[:5])))
    if rc < 0:          # exit(-1) (status 255) is the tool's documented way out of unusable situations; only signals are abnormal
        if rc == -999:
            viol.append(('C10-hang:%s' % cmd[0], "'lha %s' did not finish" % cmd))
        else:
            viol.append(('C10-abnormal-exit', "'lha %s' ended by signal %d: %s" % (cmd, -rc, se[-200:])))
    if pre and not readonly:
        for name, target in pre:
            p = os.path.join(root, name)
            # if the archive wrote to this path, the symlink must have been replaced by a regular file
            wrote = any(e.mutating and e.call.startswith('open') and e.ret >= 0 and e.arg == name.encode() for e in evs)
            if wrote and os.path.islink(p):
                viol.append(('C10-preexisting-symlink-followed', "'lha %s' wrote to %s while it still is a symlink to %s" % (cmd, name, target)))
            # the archive has a member stored at exactly this path and the overwrite policy allows it: the link must have been replaced
            member_here = {'a': 'file-a', 'd/f': 'file-in-dir', 'x': 'file-dotdot'}.get(name)
            if member_here and ('seq:' in tag or tag == 'preexisting-symlink') and member_here in job[8] and 'i' not in cmd[1:] and not ro_parents:
                if os.path.islink(p) or not os.path.isfile(p):
                    viol.append(('C10-preexisting-symlink-not-replaced', "'lha %s': %s is archived at a path where a symlink to %s existed; after "
                                 "extraction it is %s" % (cmd, member_here, target, 'still a symlink' if os.path.islink(p) else 'missing')))
    stats['rc'] = rc
    shutil.rmtree(d, ignore_errors=True)
    return tag, cmd, A, viol, stats


MUT_SYSCALLS = {'mkdir', 'mkdirat', 'unlink', 'unlinkat', 'rmdir', 'rename', 'renameat', 'renameat2', 'symlink', 'symlinkat', 'link', 'linkat',
                'chmod', 'fchmodat', 'chown', 'lchown', 'fchownat', 'utime', 'utimes', 'utimensat', 'futimesat', 'truncate', 'mknod', 'mknodat', 'creat'}


def strace_crosscheck(ctx, exe, so, base, jobs, n):
    """The monitor's own completeness, observed: every mutating file syscall that strace sees the tool issue must have a shim event
    for the same path.  (The shim can only see libc entry points; a path-taking call it does not interpose would show up here.)"""
    import re, subprocess
    sample = [j for j in jobs if j[3][0] in 'xe' and 'n' not in j[3][1:].split('w')[0]][:: max(1, len(jobs) // n)][:n]
    missing = 0
    seen = 0
    runs = 0
    for j in sample:
        nn, tag, A, cmd = j[0], j[1], j[2], j[3]
        d = os.path.join(base, 'st%d' % nn)
        root = os.path.join(d, 'root')
        os.makedirs(d)
        cli.mkdir_for_nobody(root)
        cli.mkdir_for_nobody(os.path.join(d, 'canary'))
        open(os.path.join(root, 'a.lzh'), 'wb').write(A)
        os.chmod(os.path.join(root, 'a.lzh'), 0o644)
        os.chmod(d, 0o777)
        slog = os.path.join(d, 'strace.log')
        flog = os.path.join(d, 'fs.log')
        open(flog, 'w').close()
        os.chmod(flog, 0o666)
        env = {'PATH': '/usr/bin:/bin', 'TZ': 'UTC', 'VERIF_FS_LOG': flog, 'VERIF_FS_ROOT': root}
        # the shim is preloaded into the traced tool only (-E), not into strace itself
        r = subprocess.run(cli.NOBODY + ['strace', '-f', '-qq', '-o', slog, '-E', 'LD_PRELOAD=' + so, '-e', 'trace=%file', exe, cmd, 'a.lzh'], cwd=root, env=env,
                           input=b'y\n' * 20, capture_output=True, timeout=120)
        evs = fsmon.parse_log(flog)
        have = {}
        for e in evs:
            if e.mutating and not e.denied:
                have.setdefault(e.arg, []).append(e.call)
        runs += 1
        started = False
        for line in open(slog, 'rb').read().decode('latin1').split('\n'):
            m = re.match(r'\d+\s+(\w+)\((.*)', line)
            if not m:
                continue
            sc, rest = m.group(1), m.group(2)
            if sc == 'execve' and 'a.lzh' in rest:
                started = True
                continue
            if not started:
                continue
            mut = sc in MUT_SYSCALLS or (sc in ('open', 'openat') and re.search(r'O_WRONLY|O_RDWR|O_CREAT|O_TRUNC', rest))
            if not mut:
                continue
            pm = re.findall(r'"((?:[^"\\]|\\.)*)"', rest)
            if not pm:
                continue
            path = pm[-1] if sc.startswith('symlink') else pm[0]
            pb = path.encode('latin1').decode('unicode_escape').encode('latin1')
            if pb == flog.encode():
                continue
            seen += 1
            if pb not in have:
                missing += 1
                ctx.violation('C10-monitor-incomplete:%s' % sc, 'strace saw %s(%r) by the tool, the LD_PRELOAD monitor has no event for that path (monitor '
                              'blind spot - the machinery, not lhasa, is at fault)' % (sc, pb), A)
        shutil.rmtree(d, ignore_errors=True)
    ctx.cov['strace_crosscheck_runs'] = runs
    ctx.cov['strace_mutating_syscalls_seen'] = seen
    ctx.cov['strace_mutating_syscalls_without_monitor_event'] = missing
    if runs and seen == 0:
        raise core.HarnessFailure('strace cross-check saw no mutating syscalls at all')


def run(ctx):
    b = build.Builder()
    exe = b.cli('plain')
    so = b.shared('fsmon', 'fsmon.c')
    rnd = random.Random(ctx.seed)
    base = os.path.join(build.scratch_root(), 'c10')
    os.makedirs(base, exist_ok=True)
    os.chmod(base, 0o755)
    jobs = []
    n = [0]

    def canary_for(k):
        return os.path.join(base, 'r%d' % k, 'canary')

    def add(tag, names, cmd, pre=None, levels=None):
        n[0] += 1
        A = alphabet(canary_for(n[0]))
        ms = []
        for i, nm in enumerate(names):
            lvl = levels[i] if levels else rnd.randrange(4)
            ms.append(A[nm](lvl, rnd))
        jobs.append((n[0], tag, arc.archive(ms), cmd, pre, base, exe, so, list(names)))
    names = list(alphabet('/x'))
    maxlen = 2 if ctx.tier == 'quick' else 3
    opts_quick = ['x', 'xf', 'xfi', 'xfw=sub', 'xq']
    for L in range(1, maxlen + 1):
        for seq in itertools.product(names, repeat=L):
            if L == 3 and rnd.random() < 0.75:
                continue
            for cmd in (opts_quick if L <= 2 and ctx.tier == 'thorough' else [rnd.choice(EXTRACT_OPTS)] if L == 3 else
                        ([rnd.choice(opts_quick), 'xf'] if L == 2 else opts_quick)):
                add('seq:' + '+'.join(seq), seq, cmd)
    # random longer sequences
    for i in range(300 if ctx.tier == 'quick' else 20000):
        seq = [rnd.choice(names) for _ in range(rnd.randrange(3, 8))]
        add('random-seq', seq, rnd.choice(EXTRACT_OPTS))
    # read-only commands over hostile archives
    for i in range(120 if ctx.tier == 'quick' else 3000):
        seq = [rnd.choice(names) for _ in range(rnd.randrange(1, 6))]
        add('readonly', seq, rnd.choice(READONLY_CMDS))
    # hostile name strings through the real tool: every string over {'.', '/', '\\', 0xFF, NUL, 'a'} up to a length bound, in the
    # path extended header (followed by an ordinary file name), in the file-name extended header, and as level-0/1 in-header name
    # (C11 checks what the library *returns* for these; here the tool's own joining of path and name is what is observed)
    alpha = [b'.', b'/', b'\\', b'\xff', b'\x00', b'a']
    maxn = 3 if ctx.tier == 'quick' else 5
    strings = []
    for L in range(1, maxn + 1):
        strings += [b''.join(t) for t in itertools.product(alpha, repeat=L)]
    if ctx.tier == 'quick':
        strings += [b''.join(rnd.choice(alpha) for _ in range(rnd.choice([4, 5, 6]))) for _ in range(150)]
    # names that look like 'link|target' on entries that are NOT symbolic links (the part after '|' is only a target for a link;
    # anywhere else it is part of the name), and other characters with a meaning somewhere: ':' (drive), '|', '*', '?'
    strings += [b'x|/../../esc', b'x|../../esc', b'|/../../esc', b'd|/../..', b'x|/abs/esc', b'a|b/../../../esc', b'x|\\..\\..\\esc', b'x|\xff..\xff..\xffesc',
                b'c:../../esc', b'c:/../esc', b'A:..\\..\\esc', b'c:\xff..\xff..\xffesc', b'*/../../esc', b'?/../esc', b'x|', b'|', b':']
    for si, st in enumerate(strings):
        for ch in range(3):
            lvl = (2, 3, 1)[(si + ch) % 3]
            if ch == 0:
                mem = raw_file(lvl, name=b'n', path=st, inhdr=b'x')
                if lvl == 1:
                    mem.m['exts'] = [(2, st), (1, b'n')]
            elif ch == 1:
                mem = raw_file(lvl, name=st, inhdr=b'x')
                if lvl == 1:
                    mem.m['exts'] = [(1, st)]
            else:
                if len(st) > 200:
                    continue
                mem = raw_file(si % 2, inhdr=st)
                if si % 2:
                    # the same name as a *directory* entry with recorded time and permissions (so that metadata is applied to
                    # whatever the name resolves to), and as a symlink entry
                    dm = dict(mem.m, method=b'-lhd-', size=0, crc=0, data=b'')
                    if dm['level'] == 1:
                        dm['exts'] = [(0x50, H.u16(0o40700)), (0x54, H.u32(1000000000))]
                    else:
                        dm['area'] = b'U\0' + H.u32(1000000000) + H.u16(0o40700) + H.u16(0) + H.u16(0)
                    n[0] += 1
                    jobs.append((n[0], 'name-enum:inhdr-name-dir', arc.archive([arc.Member(dm, b'', b'', kind='dir')]), ('xf', 'xfw=sub', 'xq')[si % 3], None, base, exe, so, []))
            n[0] += 1
            jobs.append((n[0], 'name-enum:%s' % ('ext-path', 'ext-filename', 'inhdr-name')[ch], arc.archive([mem]), ('xf', 'xfw=sub', 'xq')[si % 3], None, base, exe, so, []))
    ctx.cov['hostile_name_strings_enumerated'] = len(strings)
    # deferred-link ladders: several dangerous links at nested places of a small tree that also holds a harmless link to a
    # directory (an alias), their stored paths decorated with redundant separators / '.' / 'x/..' so that the length of the
    # stored string says nothing about where the link really lands.  Whatever order the tool picks, no link may be created
    # *through* another dangerous link (the monitor resolves every operation at call time).
    DEC = [b'', b'', b'/', b'//', b'///', b'./', b'.//', b'x/../', b'//./', b'\\']
    PLACES = [b's', b'd', b'c', b's/c', b'd/c', b'd/e', b's/e', b'd/e/g', b's/e/g', b'd/c/h']
    TGT = [b'..', b'../victim', b'../gone', b'/abs/elsewhere', b'a/../..', b'../../up2']

    def ladder(fixed=None):
        lv = lambda: rnd.choice([0, 1, 2, 3])
        ms = [arc.dir_member(b'd/', level=lv(), perms=0o40755)]
        if rnd.random() < 0.5:
            ms.append(arc.dir_member(b'd/e/', level=lv(), perms=0o40755))
        ms.append(arc.symlink_member(b's', b'd', level=lv()))
        picks = fixed or [(rnd.choice(DEC), rnd.choice(PLACES), rnd.choice(TGT)) for _ in range(rnd.randrange(2, 5))]
        for dec, place, tgt in picks:
            nm = dec + place
            if rnd.random() < 0.2 and b'/' in place:
                nm = dec + place.replace(b'/', rnd.choice([b'//', b'/./']), 1)
            ms.append(arc.symlink_member(nm, tgt, level=lv()))
        if rnd.random() < 0.3:
            ms.insert(rnd.randrange(1, len(ms)), arc.file_member(rnd, '-lh0-', b'f', size=4, level=lv(), path=rnd.choice([b'd/', b's/', b''])))
        return ms
    nl = 0
    for dec in DEC[2:]:
        for first in ((b'', b's/c', b'../gone'), (b'', b'd/c', b'..'), (b'', b's/e/g', b'/abs/elsewhere')):
            for order in (0, 1):
                pk = [first, (dec, b's', b'../victim')] if order == 0 else [(dec, b's', b'../victim'), first]
                n[0] += 1
                nl += 1
                jobs.append((n[0], 'deferred-ladder', arc.archive(ladder(pk)), ('xf', 'xq', 'x')[nl % 3], None, base, exe, so, []))
    for i in range(500 if ctx.tier == 'quick' else 12000):
        n[0] += 1
        nl += 1
        jobs.append((n[0], 'deferred-ladder', arc.archive(ladder()), rnd.choice(['xf', 'xq', 'xfw=sub', 'e']), None, base, exe, so, []))
    ctx.cov['deferred_ladder_archives'] = nl
    # two directed shapes in which one deferred link is created THROUGH another one (a harmless alias link to the directory
    # makes the stored path of the inner link shorter than that of the outer one, so "longest path first" creates the outer one
    # first): (1) the outer link's placeholder was replaced by a harmless link before the inner link was archived; (2) the inner
    # link was archived first and the outer link then took the place of a harmless link.  See DESIGN section 6 (F9).
    for vi, variant in enumerate(('replaced-placeholder', 'alias-order')):
        for cmd in ('xf', 'xq'):
            n[0] += 1
            cb = canary_for(n[0]).encode()
            D = b'directory-with-a-long-name'
            if variant == 'replaced-placeholder':
                ms = [arc.dir_member(D + b'/', level=2, perms=0o40755), arc.dir_member(D + b'/sub/', level=2, perms=0o40755), arc.symlink_member(b'a', D, level=2),
                      arc.symlink_member(D + b'/s', cb, level=2), arc.symlink_member(D + b'/s', b'sub', level=2), arc.symlink_member(b'a/s/precious.txt', b'/x', level=2)]
            else:
                ms = [arc.dir_member(D + b'/', level=2, perms=0o40755), arc.dir_member(D + b'/sub/', level=2, perms=0o40755), arc.symlink_member(D + b'/s', b'sub', level=2),
                      arc.symlink_member(b'a', D, level=2), arc.symlink_member(b'a/s/precious.txt', b'/x', level=2), arc.symlink_member(D + b'/s', cb, level=2)]
            jobs.append((n[0], 'deferred-link-created-through-another:' + variant, arc.archive(ms), cmd, None, base, exe, so, []))
    # pre-existing symlinks at final components
    pres = [[('a', 'CANARY/precious.txt')], [('a', 'CANARY')], [('a', 'dangling-target')], [('d/f', 'CANARY/precious.txt')],
            [('d/f', '../../nowhere')], [('x', 'CANARY/sub/ro.txt')]]
    pres += [[('d/f', 'CANARY/precious.txt', 'ro-parent')], [('a', 'CANARY/precious.txt', 'ro-parent')], [('d/f', 'CANARY/sub/ro.txt', 'ro-parent')],
             [('d/f', '../../canary/precious.txt', 'ro-parent')], [('x', 'CANARY/precious.txt', 'ro-parent')]]
    for pre in pres:
        for cmd in ('xf', 'xq', 'x', 'xfi'):
            for seq in (['file-a'], ['dir-d', 'file-in-dir'], ['file-dotdot'], ['file-a', 'file-in-dir', 'link-abs-canary']):
                add('preexisting-symlink', seq, cmd, pre=pre)
    # mutated corpus archives
    files = sorted(p for p in glob.glob(os.path.join(build.REPO, 'test', 'archives', '*', '*')) if os.path.isfile(p) and os.path.getsize(p) < 20000)
    rnd.shuffle(files)
    for p in files[:40 if ctx.tier == 'quick' else 220]:
        A = bytearray(open(p, 'rb').read())
        for k in range(1 if ctx.tier == 'quick' else 4):
            B = bytearray(A)
            for _ in range(rnd.choice([0, 1, 3, 8])):
                B[rnd.randrange(len(B))] = rnd.choice([0x2e, 0x2f, 0x5c, 0xff, rnd.randrange(256)])
            n[0] += 1
            jobs.append((n[0], 'mutated-corpus', bytes(B), rnd.choice(EXTRACT_OPTS + ['t', 'l']), None, base, exe, so, []))
    with ThreadPoolExecutor(max_workers=16) as ex:
        for tag, cmd, A, viol, stats in ex.map(one_run, jobs):
            ctx.evaluated(A + cmd.encode() + tag.encode(), nontrivial=stats['mutating'] > 0 or tag == 'readonly')
            ctx.count('fs_events', stats['events'])
            ctx.count('mutating_events', stats['mutating'])
            ctx.count('symlink_events', stats['symlinks'])
            ctx.count('dangerous_symlinks_created', stats['dangerous'])
            ctx.count('dangerous_symlink_attempts', stats['dangerous_attempts'])
            ctx.count('attempts_outside_root_that_could_have_no_effect', stats.get('no_effect_attempts', 0))
            ctx.hist('runs_by_command', cmd.split('=')[0])
            ctx.hist('runs_by_class', tag.split(':')[0])
            for k, w in viol:
                ctx.violation(k, w + ' [%s]' % tag, A)
    strace_crosscheck(ctx, exe, so, base, jobs, 40 if ctx.tier == 'quick' else 1500)
    ctx.sample({'sequence': jobs[5][1], 'command': jobs[5][3], 'archive_hex': jobs[5][2].hex()[:160]})
    ctx.sample({'sequence': jobs[-1][1], 'command': jobs[-1][3]})
    if ctx.cov.get('dangerous_symlink_attempts', 0) < 10 or ctx.cov.get('mutating_events', 0) < 1000:
        raise core.HarnessFailure('the monitor observed too little (%s mutating events): is LD_PRELOAD effective?' % ctx.cov.get('mutating_events'))
    ctx.cov['exhaustive'] = True
    ctx.cov['exhaustive_subspace'] = 'all sequences of length <= %d over %d hostile entry kinds (length-3 sampled at 25%% in thorough)' % (2, len(names))
    ctx.cov['rule'] = ('(archive, command) runs of the real tool as user nobody under the LD_PRELOAD monitor; archives = exhaustive short sequences and '
                       'random longer ones over an alphabet of hostile entries (.. / absolute / backslash / 0xFF / NUL names, safe and dangerous links, files '
                       'through links, link-then-directory, equal-length deferred links), deferred-link ladders (several dangerous links nested below '
                       'a harmless alias link, stored paths decorated with redundant separators), pre-existing symlinks at final components, mutated corpus; '
                       'distinct by archive+command; non-trivial = at least one mutating operation observed (or a read-only command)')
    ctx.assumptions += ['only libc-mediated operations of the dynamically linked tool are seen by the shim; the canary snapshot is the independent second oracle',
                        'no pre-existing symlinks to directories on any path (stated precondition)']
    shutil.rmtree(base, ignore_errors=True)


def replay(ctx, path):
    run(ctx)
