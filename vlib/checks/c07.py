"""C07 - a member is reported good iff its bytes match the recorded length and CRC-16.
For every member of every archive variant: out = bytes delivered by lha_reader_read (reader 1), verdict of
lha_reader_check (reader 2) and lha_reader_extract (reader 3), and the CLI 't'/'x' lines and exit status.
Required: verdict == (len(out) == recorded length and CRC16_bitwise(out) == recorded CRC).  Bursts of <= 16 bits in a
stored member and truncations of stored members must always be reported bad."""
import os, random, re, shutil, subprocess, struct
from concurrent.futures import ThreadPoolExecutor
from .. import build, core, rdh, arc, cli, streams, dech
from ..lhamodel import header as H
from ..lhamodel.crc16 import crc16

LEVEL = 'exploration'
_EXE = None
_CLI = None


def variants(rnd, members, tier):
    """yield (tag, archive bytes, index of the touched member or None, the members as written - None when headers may be cut)"""
    base = arc.archive(members)
    yield 'valid', base, None, members
    offs = arc.offsets(members)
    for i, x in enumerate(members):
        if x.kind != 'file':
            continue
        n = len(x.plain)
        huge = n + 5000 if x.m['method'] == b'-pm1-' else 2 ** 32 - 1     # pm1 is implicitly endless: 4 GiB would really be decoded
        lens = [n + 1, max(0, n - 1), 0, huge]
        if x.m.get('os') == ord('m') or i == 0:
            # lengths a tolerant comparison might let through: the next and previous multiple of 128 (MacBinary blocks), one block more
            lens += [(n + 127) // 128 * 128, n // 128 * 128, n + 128, n + 127]
        for newlen in sorted(set(lens)):
            if newlen == n:
                continue
            y = arc.Member(dict(x.m, size=newlen), x.packed, x.plain)
            ms = members[:i] + [y] + members[i + 1:]
            yield 'recorded-length=%s' % ('n+1' if newlen == n + 1 else 'n-1' if newlen == n - 1 else newlen), arc.archive(ms), i, ms
        crcs = [x.m['crc'] ^ (1 << b) for b in range(16)] + [rnd.randrange(65536)]
        # values a program might treat as 'no CRC recorded'
        special = [0x0000, 0xffff]
        for c in special + (crcs if tier == 'thorough' or i == 0 else crcs[::5]):
            if c == x.m['crc']:
                continue
            y = arc.Member(dict(x.m, crc=c), x.packed, x.plain)
            yield 'recorded-crc-flip', arc.archive(members[:i] + [y] + members[i + 1:]), i, members[:i] + [y] + members[i + 1:]
        hs, ds, de = offs[i]
        stored = x.m['method'] in (b'-lh0-', b'-lz4-', b'-pm0-')
        positions = range(ds, de) if (stored and de - ds <= 64) else sorted(set(rnd.randrange(ds, de) for _ in range(6))) if de > ds else []
        for p in positions:
            b = bytearray(base)
            b[p] ^= 1 << rnd.randrange(8)
            yield ('stored-data-bitflip' if stored else 'compressed-data-bitflip'), bytes(b), i, members
    if len(base) <= 400:
        for cut in range(len(base)):
            yield 'truncated', base[:cut], None, None
    else:
        for cut in sorted(set(rnd.randrange(len(base)) for _ in range(40))):
            yield 'truncated', base[:cut], None, None


def gen_bases(rnd, tier):
    out = []
    methods = streams.ALL_METHODS
    for mi, m in enumerate(methods):
        for size in ([0, 1, 40] if tier == 'quick' else [0, 1, 7, 40, 300, 3000]):
            x = arc.file_member(rnd, m, b'f%d.bin' % size, size=size, level=(mi + size) % 4)
            out.append([x])
    # members whose true CRC-16 is 0000 (any message followed by its own CRC, low byte first, has CRC 0) and FFFF: every
    # corruption of them leaves a recorded CRC that looks like 'nothing recorded'
    for lvl in (0, 1, 2, 3):
        body = bytes(rnd.randrange(256) for _ in range(20))
        c = crc16(body)
        zero = body + bytes([c & 0xff, c >> 8])
        assert crc16(zero) == 0
        out.append([arc.Member(H.simple_member(b'crc0.bin', zero, level=lvl), zero, zero)])
        for _ in range(70000):
            cand = body + bytes([rnd.randrange(256), rnd.randrange(256), rnd.randrange(256)])
            if crc16(cand) == 0xffff:
                out.append([arc.Member(H.simple_member(b'crcf.bin', cand, level=lvl), cand, cand)])
                break
    # members written by the Mac tool (OS type 'm') whose data is certainly not a MacBinary envelope (first byte 0x55): passed through,
    # and judged like any other member
    for lvl in (1, 2):
        for size in (1, 100, 127, 128, 255, 300):
            data = b'\x55' + bytes(rnd.randrange(256) for _ in range(size - 1))
            for meth in ((b'-lh0-',) if tier == 'quick' and size not in (255, 300) else (b'-lh0-', b'-lh5-')):
                if meth == b'-lh0-':
                    out.append([arc.Member(H.simple_member(b'macplain%d.bin' % size, data, level=lvl, os_type=ord('m')), data, data)])
                else:
                    from ..lhamodel import lhnew
                    cmds = [('L', c) for c in data]
                    packed, _ = lhnew.serialise('-lh5-', cmds, rnd)
                    out.append([arc.Member(H.simple_member(b'macplain%d.lh5' % size, data, level=lvl, method=meth, os_type=ord('m'), packed=packed), packed, data)])
    for k in range(24 if tier == 'quick' else 300):
        ms = []
        n = rnd.randrange(2, 5)
        for j in range(n):
            if rnd.random() < 0.15:
                ms.append(arc.dir_member(b'd%d/' % j, level=rnd.randrange(4), perms=0o40755))
            else:
                ms.append(arc.file_member(rnd, rnd.choice(methods), b'm%d.dat' % j, size=rnd.choice([0, 3, 30, 200]), level=rnd.randrange(4)))
        out.append(ms)
    return out


def shard(seed, bases, tier):
    sh = core.Shard()
    rnd = random.Random(seed)
    cases = []
    groups = []
    for members in bases:
        for tag, a, touched, written in variants(rnd, members, tier):
            kind = rnd.choice([0, 2, 2, 3])
            if tag == 'truncated' and kind == 3:
                kind = 2          # skip-less callbacks on truncated data: that is C13's ground (known F2), keep C07 about verdicts
            cs = [rdh.RCase(a, [(rdh.OP_WALK, 2)], kind=kind, flags=rdh.F_FULLDATA, meta=tag),
                  rdh.RCase(a, [(rdh.OP_WALK, 3)], kind=kind, meta=tag),
                  rdh.RCase(a, [(rdh.OP_WALK, 4)], kind=kind, meta=tag)]
            cases += cs
            groups.append((tag, a, cs, members, touched, written))

    def on_crash(case, cls, key, err):
        sh.violation('C07-crash:' + key, '%s on a %s archive: %s' % (cls, case.meta, err[-800:]), case.archive)
    res = rdh.run_batch(_EXE, cases, sh, label='c07', on_crash=on_crash)
    for tag, a, cs, members, touched, written in groups:
        evs = [res.get(c.id) for c in cs]
        if any(e is None for e in evs):
            continue
        if any(rdh.outcap_hit(e) for e in evs):
            sh.count('abandoned_at_output_cap')
            continue
        if any(rdh.budget_hit(e) for e in evs):
            sh.violation('C07-no-return:' + tag, 'call did not return within the step budget', a)
            continue

        def split(ev):
            out, cur = [], None
            for k, d in ev:
                if k == 'next':
                    cur = [d, None]
                    if d is not None:
                        out.append(cur)
                elif k in ('readall', 'check', 'extract') and cur is not None:
                    cur[1] = d
            return out
        r1, r2, r3 = (split(e) for e in evs)
        r3 = [e for e in r3 if not e[0]['fake']]          # re-presented directories are not members
        sh.evaluated(a + tag.encode(), nontrivial=len(r1) > 0 and tag != 'valid')
        sh.hist('archives_by_variant', tag)
        if not (len(r1) == len(r2)):
            sh.violation('C07-member-count-differs:' + tag, 'reading and checking saw different member lists (%d vs %d)' % (len(r1), len(r2)), a)
            continue
        for idx, ((h, rd), (h2, ck)) in enumerate(zip(r1, r2)):
            if h['method'] == b'-lhd-' or h['fake']:
                continue
            if rd is None or ck is None:
                continue
            out = rd['data']
            # the recorded length and CRC are the ones the archive bytes hold (known from the model that wrote them), not whatever
            # the library says its header holds: a header that has been adjusted to fit the data would make any output look right
            rec_size, rec_crc = h['size'], h['crc']
            if written is not None and len(written) == len(r1) and written[idx].kind == 'file':
                rec_size, rec_crc = written[idx].m['size'], written[idx].m['crc']
                sh.count('members_judged_against_fields_as_written')
            good = (len(out) == rec_size) and (crc16(out) == rec_crc)
            meth = h['method'].decode('latin1')
            sh.count('members_judged')
            sh.hist('verdicts', 'good' if good else 'bad')
            if h['os'] == ord('m') and not (h['filename'] or b'').startswith(b'macplain'):
                continue            # may be a MacBinary envelope: what "the bytes produced" are is C06's subject (macplain*: first byte 0x55, never one)
            if bool(ck['result']) != good:
                sh.violation('C07-check-verdict:%s:%s:%s' % (meth, tag, 'false-good' if ck['result'] else 'false-bad'),
                             'member %d (%s, recorded length %d crc %04x): read delivered %d bytes with CRC %04x, but lha_reader_check returned %d'
                             % (idx, meth, rec_size, rec_crc, len(out), crc16(out), ck['result']), a)
            if idx < len(r3) and r3[idx][1] is not None and not r3[idx][0]['fake']:
                ex = r3[idx][1]
                if bool(ex['result']) != good:
                    sh.violation('C07-extract-verdict:%s:%s:%s' % (meth, tag, 'false-good' if ex['result'] else 'false-bad'),
                                 'member %d (%s): read delivered %d bytes (recorded %d), CRC %04x (recorded %04x), but lha_reader_extract returned %d'
                                 % (idx, meth, len(out), rec_size, crc16(out), rec_crc, ex['result']), a)
            # consequences the statement spells out
            stored = h['method'] in (b'-lh0-', b'-lz4-', b'-pm0-')
            if stored and tag in ('stored-data-bitflip',) and touched == idx and ck['result']:
                sh.violation('C07-stored-corruption-accepted:' + meth, 'a one-bit corruption of a stored member was reported good', a)
        if tag == 'valid':
            for idx, ((h, rd), (h2, ck)) in enumerate(zip(r1, r2)):
                if h['method'] != b'-lhd-' and not h['fake'] and ck and not ck['result']:
                    sh.violation('C07-valid-member-bad:' + h['method'].decode('latin1'), 'a valid member was reported bad', a)
    if groups:
        g = groups[min(3, len(groups) - 1)]
        sh.sample({'variant': g[0], 'archive_hex': g[1].hex()[:200], 'members': len(g[3])})
    return sh


def cli_part(ctx, rnd, bases):
    """'lha t' / 'lha x' lines and exit status against the same iff."""
    root = os.path.join(build.scratch_root(), 'c07cli')
    cli.mkdir_for_nobody(root)
    jobs = []
    n = 0
    for members in bases:
        for tag, a, touched, written in variants(rnd, members, 'quick'):
            if tag == 'truncated' and rnd.random() < 0.8:
                continue
            if tag != 'valid' and rnd.random() < 0.6:
                continue
            n += 1
            jobs.append((n, tag, a, written))
    jobs = jobs[:400 if ctx.tier == 'quick' else 6000]

    def one(j):
        n, tag, a, members = j
        d = os.path.join(root, 'r%d' % n)
        cli.mkdir_for_nobody(d)
        p = os.path.join(d, 'a.lzh')
        open(p, 'wb').write(a)
        os.chmod(p, 0o644)
        t = cli.run_lha(_CLI, ['t', 'a.lzh'], d, as_nobody=True)
        x = cli.run_lha(_CLI, ['xf', 'a.lzh'], d, as_nobody=True)
        return j, t, x
    with ThreadPoolExecutor(max_workers=16) as ex:
        results = list(ex.map(one, jobs))
    # reference verdicts from the library-level iff, recomputed here from a plain walk
    cases = [rdh.RCase(a, [(rdh.OP_WALK, 2)], kind=0, flags=rdh.F_FULLDATA, meta=tag) for (n, tag, a, members) in jobs]
    sh = core.Shard()
    res = rdh.run_batch(_EXE, cases, sh, label='c07cli', on_crash=lambda c, cls, key, err: sh.violation('C07-crash:' + key, err[-600:], c.archive))
    core.merge_shard(ctx, sh)
    for (j, t, x), c in zip(results, cases):
        n, tag, a, members = j
        ev = res.get(c.id)
        if ev is None:
            continue
        verdicts = []
        cur = None
        nhdr = sum(1 for k, d in ev if k == 'next' and d is not None)
        hi = -1
        for k, d in ev:
            if k == 'next' and d is not None:
                cur = d
                hi += 1
            elif k == 'readall' and cur is not None and cur['method'] != b'-lhd-':
                rec_size, rec_crc = cur['size'], cur['crc']
                if members is not None and len(members) == nhdr and members[hi].kind == 'file':
                    rec_size, rec_crc = members[hi].m['size'], members[hi].m['crc']       # as written in the archive
                good = len(d['data']) == rec_size and crc16(d['data']) == rec_crc
                verdicts.append(((cur['path'] or b'') + (cur['filename'] or b''), good, cur))
        ctx.count('cli_runs', 2)
        for mode, (rc, so, se), okword, badword in (('t', t, b'Tested', b'CRC error'), ('x', x, b'Melted', b'Failure')):
            if rc < 0 or rc > 1:
                ctx.violation('C07-cli-abnormal-exit:%s' % mode, 'lha %s exited with %d: %s' % (mode, rc, se[-300:]), a)
                continue
            lines = [l for l in so.replace(b'\r', b'\n').split(b'\n') if b'\t- ' in l]
            anybad = False
            for name, good, h in verdicts:
                if dech is None:
                    pass
                mine = [l for l in lines if l.startswith(bytes(c if 0x20 <= c < 0x7f else 0x3f for c in name) + b'\t- ')]
                final = [l for l in mine if okword in l or badword in l]
                supported = h['method'].decode('latin1') in streams.ALL_METHODS or h['method'] == b'-lk7-'
                if not good:
                    anybad = True
                if final:
                    said_good = okword in final[-1]
                    if said_good != good:
                        ctx.violation('C07-cli-line:%s:%s' % (mode, 'false-good' if said_good else 'false-bad'),
                                      'lha %s printed %r for a member whose bytes %s the recorded length/CRC (%s variant)'
                                      % (mode, final[-1][-20:], 'match' if good else 'do not match', tag), a)
            if anybad and rc == 0:
                ctx.violation('C07-cli-exit-status:%s' % mode, 'lha %s exited 0 although a member failed (%s variant)' % (mode, tag), a)
            if not anybad and verdicts and rc != 0 and tag == 'valid':
                ctx.violation('C07-cli-exit-status-valid:%s' % mode, 'lha %s exited %d on a valid archive: %s' % (mode, rc, se[-200:]), a)
    shutil.rmtree(root, ignore_errors=True)


def many_failures_part(ctx):
    """The exit status must be non-zero whenever any selected member fails - also when the number of failing members is a
    multiple of 256 (an exit status only has eight bits)."""
    root = os.path.join(build.scratch_root(), 'c07many')
    cli.mkdir_for_nobody(root)
    for nbad, ngood in ((1, 0), (255, 1), (256, 0), (256, 3), (257, 0), (512, 1)):
        ms = []
        for k in range(nbad + ngood):
            data = b'd%03d' % k
            m = H.simple_member(b'f%03d' % k, data, level=k % 3)
            if k < nbad:
                m['crc'] ^= 0x0100
            ms.append(arc.Member(m, data, data))
        a = arc.archive(ms)
        d = os.path.join(root, 'n%d_%d' % (nbad, ngood))
        cli.mkdir_for_nobody(d)
        open(os.path.join(d, 'a.lzh'), 'wb').write(a)
        os.chmod(os.path.join(d, 'a.lzh'), 0o644)
        for mode in ('t', 'xf', 'tq', 'xq'):
            rc, so, se = cli.run_lha(_CLI, [mode, 'a.lzh'], d, as_nobody=True)
            ctx.count('cli_runs')
            ctx.cov['evaluations'] += 1
            if rc == 0:
                ctx.violation('C07-cli-exit-status:%s:many-failures' % mode[0], "'lha %s' exited 0 although %d of %d members fail their CRC"
                              % (mode, nbad, nbad + ngood), a)
            nbadlines = so.count(b'CRC error') + so.count(b'Failure')
            if mode in ('t', 'xf') and nbadlines != nbad:
                ctx.violation('C07-cli-line-count:%s' % mode[0], "'lha %s' printed %d failure lines for %d failing members" % (mode, nbadlines, nbad), a)
    shutil.rmtree(root, ignore_errors=True)


def sequence_part(ctx, rnd):
    """Several decode operations on the SAME member of one reader (read then extract, check then extract, check twice, ...).
    Compressed data can be consumed once, so only the first operation can see the whole member; the iff is applied to every
    operation that reports success: an extract that returns 1 must have left a file with exactly the recorded length and CRC
    (the harness reports what is on disk), and a check that returns 1 must be the first decode operation on its member."""
    sh = core.Shard()
    R, RA, C, X = (rdh.OP_READ, 100), (rdh.OP_READALL, 0), (rdh.OP_CHECK, 0), (rdh.OP_EXTRACT_NAMED, 0)
    seqs = [[C, X], [X, C], [(rdh.OP_READ, 1), X], [R, X], [RA, X], [R, C], [RA, C], [C, C], [X, X], [(rdh.OP_READ, 1), C, X], [X], [C], [R, R, X]]
    cases = []
    for meth in ('-lh0-', '-lh5-', '-lz5-', '-pm2-', '-lh1-'):
        for sz in (3000, 150, 1):
            # members whose compressed data denotes exactly the recorded bytes and nothing more (a stream with slack after the
            # declared length could legitimately be decoded a second time from where the first decoder stopped)
            ms = []
            for k in range(2):
                if meth in streams.STORED:
                    plain = bytes(rnd.randrange(256) for _ in range(sz))
                    packed = plain
                else:
                    packed, plain, _ = streams.valid_stream(rnd, meth, sz)
                ms.append(arc.Member(H.simple_member(b'm%d' % k, plain, level=k % 3, method=meth.encode(), packed=packed), packed, plain))
            a = arc.archive(ms)
            for sq in seqs:
                ops = []
                for _ in ms:
                    ops += [(rdh.OP_NEXT, 0)] + sq
                ops.append((rdh.OP_NEXT, 0))
                cases.append(rdh.RCase(a, ops, kind=rnd.choice([0, 2]), meta=(meth, sz, sq, ms)))
    res = rdh.run_batch(_EXE, cases, sh, label='c07seq', on_crash=lambda c, cls, key, err: sh.violation('C07-crash:' + key, err[-600:], c.archive))
    names = {rdh.OP_READ: 'read', rdh.OP_READALL: 'read-all', rdh.OP_CHECK: 'check', rdh.OP_EXTRACT_NAMED: 'extract'}
    for c in cases:
        ev = res.get(c.id)
        meth, sz, sq, ms = c.meta
        sh.evaluated(c.archive + repr(sq).encode(), nontrivial=len(sq) > 1)
        sh.count('same_member_sequences')
        if ev is None:
            continue
        cur, nth, consumed = None, 0, False
        seqname = '+'.join(names[o] for o, _ in sq)
        for k, d in ev:
            if k == 'next':
                cur, consumed = d, False
            elif cur is None:
                continue
            elif k in ('read', 'readall'):
                consumed = consumed or d['n'] > 0
            elif k == 'check':
                if d['result'] == 1 and consumed and cur['size'] >= 64:
                    sh.violation('C07-success-after-data-was-consumed:check:' + seqname, 'lha_reader_check returned success for a %s member of %d bytes although an earlier '
                                 'operation of the sequence %s had already consumed its data' % (meth, sz, seqname), c.archive)
                consumed = True
            elif k == 'extract':
                if d['result'] == 1 and not (d.get('flen') == cur['size'] and d.get('fcrc') == cur['crc']):
                    sh.violation('C07-extract-success-but-file-wrong:' + seqname, 'lha_reader_extract returned success (sequence %s on a %s member: %d bytes, CRC %04x recorded) '
                                 'but the file holds %s bytes, CRC %04x' % (seqname, meth, cur['size'], cur['crc'], d.get('flen'), d.get('fcrc', 0)), c.archive)
                if d['result'] == 0 and not consumed and sz > 0:
                    sh.violation('C07-false-bad:extract:' + seqname, 'first operation on a valid %s member (extract) reported failure' % meth, c.archive)
                consumed = True
    core.merge_shard(ctx, sh)


def write_fault_part(ctx, rnd):
    """Extraction under write faults: RLIMIT_FSIZE = L with SIGXFSZ ignored makes write(2) fail with EFBIG once a file would
    grow past L bytes.  The iff of C07 is judged on what extraction produced, i.e. the file on disk: a member reported
    'Melted' (and an exit status of 0) demands that its file holds exactly the recorded bytes.  L is placed so that the
    failing write falls in the first, a middle, and the LAST stdio block of a member (the last block is only flushed by
    fclose), and below/above whole files."""
    import resource, signal, subprocess
    root = os.path.join(build.scratch_root(), 'c07wf')
    cli.mkdir_for_nobody(root)
    sizes = [10000, 4096, 4097, 70000, 300000, 12288, 1] if ctx.tier == 'quick' else [10000, 4096, 4097, 8192, 70000, 300000, 600000, 12288, 1, 100]
    jobs = []
    n = 0
    for sz in sizes:
        limits = sorted(set(x for x in (0, 1, sz // 2, sz - 1, sz - 100, (sz // 4096) * 4096, (sz // 4096) * 4096 - 1, (sz // 4096) * 4096 + 1,
                                          sz - sz % 4096 + (sz % 4096) // 2, 4096, 262144, 262145, sz, sz + 1) if 0 <= x <= sz + 1))
        if ctx.tier == 'quick':
            limits = [l for l in limits if l >= sz - 4200 or l in (0, 4096)] if sz > 20000 else limits
        for L in limits:
            for meth in (('-lh0-',) if sz > 20000 else ('-lh0-', '-lh5-')):
                ms = [arc.file_member(rnd, '-lh0-', b'small', size=min(7, L), level=1), arc.file_member(rnd, meth, b'big.bin', size=sz, level=n % 3),
                      arc.file_member(rnd, '-lh0-', b'tail', size=min(3, L), level=2)]
                for mode in ('xf', 'eq') if n % 2 else ('xf',):
                    n += 1
                    jobs.append((n, L, mode, ms, arc.archive(ms)))

    def one(j):
        n, L, mode, ms, a = j
        d = os.path.join(root, 'w%d' % n)
        cli.mkdir_for_nobody(d)
        open(os.path.join(d, 'a.lzh'), 'wb').write(a)
        os.chmod(os.path.join(d, 'a.lzh'), 0o644)

        def pre():
            signal.signal(signal.SIGXFSZ, signal.SIG_IGN)
            resource.setrlimit(resource.RLIMIT_FSIZE, (L, L))
        r = subprocess.run(cli.NOBODY + [_CLI, mode, 'a.lzh'], cwd=d, capture_output=True, preexec_fn=pre, timeout=120,
                           env={'PATH': '/usr/bin:/bin', 'TZ': 'UTC', 'LC_ALL': 'C'})
        disk = {}
        for x in ms:
            p = os.path.join(d, x.name.decode())
            disk[x.name] = open(p, 'rb').read() if os.path.isfile(p) else None
        shutil.rmtree(d, ignore_errors=True)
        return j, r.returncode, r.stdout, disk
    with ThreadPoolExecutor(max_workers=16) as ex:
        for (n, L, mode, ms, a), rc, so, disk in ex.map(one, jobs):
            ctx.count('write_fault_runs')
            ctx.cov['evaluations'] += 1
            ctx.hist('write_fault_limit_vs_member', 'limit>=size' if L >= len(ms[1].plain) else 'in-last-4096-block' if L >= len(ms[1].plain) - len(ms[1].plain) % 4096
                     and len(ms[1].plain) % 4096 else 'earlier-block')
            if rc < 0 or rc > 1:
                ctx.violation('C07-cli-abnormal-exit:write-fault', "'lha %s' under a file size limit of %d exited with %d" % (mode, L, rc), a)
                continue
            lines = [l for l in so.replace(b'\r', b'\n').split(b'\n') if b'\t- ' in l]
            anybad = False
            for x in ms:
                good = disk[x.name] == x.plain
                anybad |= not good
                if not good:
                    ctx.count('write_fault_members_incomplete_on_disk')
                final = [l for l in lines if l.startswith(x.name + b'\t- ') and (b'Melted' in l or b'Failure' in l)]
                if final and b'Melted' in final[-1] and not good:
                    ctx.violation('C07-cli-line:x:false-good:write-fault', "'lha %s' under a file size limit of %d bytes printed 'Melted' for %s (%d bytes recorded) "
                                  'but the file on disk holds %s bytes' % (mode, L, x.name.decode(), len(x.plain), 'no' if disk[x.name] is None else len(disk[x.name])), a)
            if anybad and rc == 0:
                ctx.violation('C07-cli-exit-status:x:write-fault', "'lha %s' under a file size limit of %d bytes exited 0 although a member's file is incomplete on disk"
                              % (mode, L), a)
            if not anybad and rc != 0:
                ctx.violation('C07-cli-exit-status-valid:x:write-fault', "'lha %s' exited %d although every file was written completely (limit %d)" % (mode, rc, L), a)
    shutil.rmtree(root, ignore_errors=True)


def cannot_create_part(ctx, rnd):
    """Members whose output file cannot be created (a directory already has that name, the parent is a regular file, the target
    directory is read-only): nothing is produced for them, so they must not be reported 'Melted' and the exit status must not be 0.
    Judged on what is on disk afterwards."""
    root = os.path.join(build.scratch_root(), 'c07cc')
    cli.mkdir_for_nobody(root)
    fm = lambda name, sz=20, lvl=1, path=b'', meth='-lh0-': arc.file_member(rnd, meth, name, size=sz, level=lvl, path=path)
    scen = []
    for lvl in (0, 1, 2):
        for meth in ('-lh0-', '-lh5-'):
            scen.append(('file-named-like-earlier-directory', [fm(b'readme.txt', 20, lvl, b'data/', meth), fm(b'data', 30, lvl, b'', meth), fm(b'tail', 5, lvl)], None, ['xf']))
            scen.append(('directory-in-place-of-member', [fm(b'small', 5, lvl), fm(b'big.bin', 300, lvl, b'', meth), fm(b'tail', 5, lvl)], ('mkdir', 'big.bin'), ['xf', 'eq']))
            scen.append(('parent-is-a-regular-file', [fm(b'f', 9, lvl, b'', meth), fm(b'x', 12, lvl, b'f/', meth), fm(b'tail', 5, lvl)], None, ['xf']))
            scen.append(('read-only-target-directory', [fm(b'a', 9, lvl, b'', meth), fm(b'b', 12, lvl, b'sub/', meth)], ('rodir', 'ro'), ['xfw=ro']))
    n = 0
    for tag, ms, pre, modes in scen:
        for mode in modes:
            n += 1
            d = os.path.join(root, 's%d' % n)
            cli.mkdir_for_nobody(d)
            a = arc.archive(ms)
            open(os.path.join(d, 'a.lzh'), 'wb').write(a)
            os.chmod(os.path.join(d, 'a.lzh'), 0o644)
            base = d
            if pre and pre[0] == 'mkdir':
                cli.mkdir_for_nobody(os.path.join(d, pre[1]))
            if pre and pre[0] == 'rodir':
                cli.mkdir_for_nobody(os.path.join(d, pre[1]))
                os.chmod(os.path.join(d, pre[1]), 0o555)
                base = os.path.join(d, pre[1])
            rc, so, se = cli.run_lha(_CLI, [mode, 'a.lzh'], d, as_nobody=True, stdin=b'')
            ctx.count('cannot_create_runs')
            ctx.cov['evaluations'] += 1
            lines = [l for l in so.replace(b'\r', b'\n').split(b'\n') if b'\t- ' in l]
            anybad = False
            for x in ms:
                p = os.path.join(base, x.name.decode())
                good = os.path.isfile(p) and not os.path.islink(p) and open(p, 'rb').read() == x.plain
                anybad |= not good
                final = [l for l in lines if (l.startswith(x.name + b'\t- ') or l.endswith(b'/' + x.name + b'\t- Melted  ') or (b'/' + x.name + b'\t- ') in l) and (b'Melted' in l or b'Failure' in l)]
                if final and b'Melted' in final[-1] and not good:
                    ctx.violation('C07-cli-line:x:false-good:cannot-create:' + tag, "'lha %s' printed 'Melted' for %s although no such file with the recorded bytes exists afterwards (%s)"
                                  % (mode, x.name.decode(), tag), a)
            if rc < 0 or rc > 255:
                ctx.violation('C07-cli-abnormal-exit:cannot-create', "'lha %s' ended with %d (%s)" % (mode, rc, tag), a)
            elif anybad and rc == 0:
                ctx.violation('C07-cli-exit-status:x:cannot-create:' + tag, "'lha %s' exited 0 although a member's file could not be produced (%s)" % (mode, tag), a)
            if pre and pre[0] == 'rodir':
                os.chmod(os.path.join(d, pre[1]), 0o755)
    shutil.rmtree(root, ignore_errors=True)


def undecodable_part(ctx, rnd):
    """Members whose method has no decoder (-lh2-, -lh3-, ...): no bytes are produced for them, so neither library nor tool may
    call them good, alone or between good members, in any quiet level."""
    root = os.path.join(build.scratch_root(), 'c07ud')
    cli.mkdir_for_nobody(root)
    cases = []
    n = 0
    for meth in (b'-lh2-', b'-lh3-', b'-lh8-', b'-lzx-', b'-pm3-', b'-lhq-'):
        for lvl in (0, 1, 2):
            data = bytes(rnd.randrange(256) for _ in range(40))
            bad = arc.Member(H.simple_member(b'middle.bin', data, level=lvl, method=meth), data, data)
            good = lambda nm: arc.file_member(rnd, '-lh5-', nm, size=30, level=lvl)
            for shape, ms in (('alone', [bad]), ('between-good', [good(b'first.bin'), bad, good(b'last.bin')])):
                if shape == 'alone' and meth == b'-lzx-':
                    continue        # not a signature the archive scanner knows: such a file holds no members at all
                n += 1
                d = os.path.join(root, 'u%d' % n)
                cli.mkdir_for_nobody(d)
                a = arc.archive(ms)
                open(os.path.join(d, 'a.lzh'), 'wb').write(a)
                os.chmod(os.path.join(d, 'a.lzh'), 0o644)
                for args in (['t', 'a.lzh'], ['tq', 'a.lzh'], ['t', 'a.lzh', 'middle.bin'], ['xf', 'a.lzh'], ['xq', 'a.lzh']):
                    rc, so, se = cli.run_lha(_CLI, args, d, as_nobody=True)
                    ctx.count('undecodable_member_runs')
                    ctx.cov['evaluations'] += 1
                    mode = args[0]
                    if rc == 0:
                        ctx.violation('C07-cli-exit-status:%s:undecodable-member' % mode[0], "'lha %s' exited 0 although the %s member (%s, level %d, %s) cannot be decoded"
                                      % (' '.join(args), meth.decode(), shape, lvl, 'no bytes produced'), a)
                    if any(l.startswith(b'middle.bin\t- ') and (b'Tested' in l or b'Melted' in l) for l in so.replace(b'\r', b'\n').split(b'\n')):
                        ctx.violation('C07-cli-line:%s:false-good:undecodable-member' % mode[0], "'lha %s' reported the %s member as good" % (' '.join(args), meth.decode()), a)
                cases.append(rdh.RCase(a, [(rdh.OP_WALK, 3)], kind=2, meta=(meth, shape)))
                cases.append(rdh.RCase(a, [(rdh.OP_WALK, 4)], kind=2, meta=(meth, shape)))
    sh = core.Shard()
    res = rdh.run_batch(_EXE, cases, sh, label='c07ud', on_crash=lambda c, cls, key, err: sh.violation('C07-crash:' + key, err[-600:], c.archive))
    for c in cases:
        ev = res.get(c.id) or []
        cur = None
        for k, d in ev:
            if k == 'next':
                cur = d
            elif k in ('check', 'extract') and cur is not None and cur['method'] == c.meta[0] and d['result'] == 1:
                sh.violation('C07-false-good:%s:undecodable-member' % k, 'lha_reader_%s returned success for a %s member' % (k, c.meta[0].decode()), c.archive)
    core.merge_shard(ctx, sh)
    shutil.rmtree(root, ignore_errors=True)


def burst_part(ctx, exe_enum):
    """Exhaustive (thorough) / sampled (quick) bursts of 1..16 bits on a 6-byte stored member, in-process."""
    # two targets: ordinary data in a level-2 header, and data whose true CRC is 0000 in a level-0 header (a recorded CRC that
    # looks like 'none recorded')
    d0 = b'\x13\x37\xc0\xde'
    z = d0 + bytes([crc16(d0) & 0xff, crc16(d0) >> 8])
    targets = [(b'\x13\x37\xc0\xde\x00\xff', 2), (z, 0)]
    jobs = []
    for ti, (data, lvl) in enumerate(targets):
        x = arc.Member(H.simple_member(b'burst.bin', data, level=lvl), data, data)
        hdr = H.build_header(x.m)[0]
        a = arc.archive([x])
        p = os.path.join(build.scratch_root(), 'burst%d.bin' % ti)
        open(p, 'wb').write(struct.pack('<II', len(hdr), len(a)) + a)
        offs = list(range(48)) if ctx.tier == 'thorough' else ([0, 1, 7, 8, 15, 23, 31, 32] if ti == 0 else [0, 9, 33])
        jobs += [(p, o) for o in offs]
    offs = jobs
    def one(po):
        p, o = po
        return subprocess.run([exe_enum, 'c07burst', p, str(o), str(o + 1)], capture_output=True, text=True, env=build.san_env())
    tot = 0
    with ThreadPoolExecutor(max_workers=16) as ex:
        for r in ex.map(one, offs):
            if r.returncode != 0:
                raise core.HarnessFailure('burst enumerator failed: ' + r.stderr[-500:])
            m = re.search(r'SUMMARY mode=c07burst bursts=(\d+) accepted=(\d+)', r.stdout)
            tot += int(m.group(1))
            for line in r.stdout.splitlines():
                if line.startswith('WITNESS'):
                    mm = re.search(r'archive=([0-9a-f]+)', line)
                    ctx.violation('C07-burst-accepted', 'a burst of <= 16 flipped bits in a stored member was reported good: ' + line[:120],
                                  bytes.fromhex(mm.group(1)))
    ctx.cov['bursts_enumerated'] = tot
    ctx.cov['burst_offsets'] = len(offs)
    ctx.cov['evaluations'] += tot
    ctx.cov['bursts_exhaustive'] = ctx.tier == 'thorough'


def run(ctx):
    global _EXE, _CLI
    b = build.Builder()
    _EXE = b.harness('asan', 'reader', ['h_reader.c'], wrap_alloc=True)
    _CLI = b.cli('plain')
    enum = b.harness('asan', 'hdrenum', ['h_hdrenum.c', 'ref_hdrrules.c'])
    rnd = random.Random(ctx.seed)
    bases = gen_bases(rnd, ctx.tier)
    nsh = 16
    args = [(ctx.seed * 53 + i, bases[i::nsh], ctx.tier) for i in range(nsh)]
    core.run_shards(ctx, shard, args)
    cli_part(ctx, rnd, bases[::3] if ctx.tier == 'quick' else bases)
    many_failures_part(ctx)
    sequence_part(ctx, rnd)
    write_fault_part(ctx, rnd)
    cannot_create_part(ctx, rnd)
    undecodable_part(ctx, rnd)
    burst_part(ctx, enum)
    ctx.cov['rule'] = ('archive variants (valid; recorded length n+-1/0/2^32-1; every single-bit flip of the recorded CRC; bit flips in member '
                       'data - every byte for small stored members; every truncation of small archives) over members of all 14 methods; three '
                       'independent readers (read / check / extract) + CLI t and x; several decode operations on the same member of one reader (success only for the operation that saw the whole data; extracted file checked on disk); members whose output file cannot be created; members whose method has no decoder; extraction under write faults (file size limit placed in the '
                       'first, a middle and the last stdio block of a member), judged on the bytes on disk; distinct by archive bytes; non-trivial = a non-valid variant '
                       'with at least one returned member')
    ctx.assumptions.append('MacBinary members excluded (their delivered bytes differ from the CRC\'d stream by design)')


def replay(ctx, path):
    run(ctx)
