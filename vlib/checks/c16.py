"""C16 - same members from file, pipe or callbacks, and after any self-extractor prefix.
Reference: member list (headers, data bytes, check verdicts) through callbacks-with-skip on A.  Every other stream kind
on A, and every kind on P + A (P = stub bytes that contain neither a method signature nor an SFX marker, or
stub + marker + one decoy header + stub) must give the same list.  CLI: 'lha t F' == 'lha t - < F' == 'cat F | lha t -'."""
import os, random, glob, subprocess, shutil
from concurrent.futures import ThreadPoolExecutor
from .. import build, core, rdh, arc, cli, streams
from . import c15
from ..lhamodel import header as H

LEVEL = 'exploration'
_EXE = None
SAFE = bytes(b for b in range(256) if b not in (0x2d, 0x4c))       # no '-' and no 'L': cannot form '-l??-', '-pm?-', 'LHA-SFX', 'LhASFX V1.2,'
MARKERS = [b'LHA-SFX', b'LhASFX V1.2,']
DECOYS = [b'\x20\x7f-lh5-', b'xy-lh0-', b'\x00\x00-lz5-', b'ab-pm2-', b'!!-lhd-']


def corpus(tier, rnd):
    files = sorted(p for p in glob.glob(os.path.join(build.REPO, 'test', 'archives', '*', '*')) if os.path.isfile(p)
                   and not p.endswith(('README', '.txt', '.sh')))
    files = [p for p in files if os.path.getsize(p) < (30000 if tier == 'quick' else 400000)]
    if tier == 'quick':
        rnd.shuffle(files)
        files = files[:100]
    return [(os.path.relpath(p, build.REPO), open(p, 'rb').read()) for p in files]


def prefixes(rnd, tier):
    """(class, bytes)"""
    out = []
    def rb(n):
        return bytes(rnd.choice(SAFE) for _ in range(n))
    lens = list(range(0, 65))
    for m in range(1, 43 if tier == 'thorough' else 12):
        for d in (-2, -1, 0, 1, 2):
            lens += [12 * m + d, 24 * m + d]
    lens += [255 * 1024 - k for k in (1, 12, 23, 24, 25)]
    lens += [rnd.randrange(65, 200000) for _ in range(6 if tier == 'quick' else 60)]
    for n in sorted(set(l for l in lens if 0 <= l < 255 * 1024)):
        out.append(('stub-len-%s' % ('<=64' if n <= 64 else 'near-%d' % (24 * round(n / 24)) if n <= 1024 else 'near-limit' if n > 250000 else 'random'), rb(n)))
    # near misses of the two marker strings are ordinary stub bytes: every proper prefix (>= 3 bytes), every single-character
    # change, case changes - alone and inside longer text - must leave the members unchanged
    near = set()
    for mk in MARKERS:
        for k in range(3, len(mk)):
            near.add(mk[:k])
            near.add(mk[:k] + b' ')
        for i in range(len(mk)):
            for repl in (b'x', b'0', bytes([mk[i] ^ 0x20]), b'.'):
                v = mk[:i] + repl + mk[i + 1:]
                if v not in MARKERS and b'-l' not in v and b'-p' not in v:
                    near.add(v)
        near.add(mk.lower())
        near.add(mk.upper())
        near.add(mk[:-1] + b'\0')
    near = sorted(n_ for n_ in near if not any(m_ in n_ for m_ in MARKERS))
    for j, nm_ in enumerate(near):
        pre = rb(rnd.choice([0, 3, 11, 12, 13, 40, 4093]))
        out.append(('near-miss-marker', pre + (b'made with ' if j % 3 == 0 else b'') + nm_ + rb(rnd.choice([0, 1, 30, 200]))))
    # near misses of a method signature (the scanner looks for '-l??-' / '-pm?-' two bytes into a header)
    import re
    sig_near = [b'-lh5', b'-lh5x', b'-lh-', b'-l-', b'lh5-', b'-kh5-', b'-Lh5-', b'-l h5-', b'-pm2', b'-pn2-', b'-pm-', b'-p m2-', b'--', b'-', b'-l', b'-pm',
                b'-lhd', b'-lzs', b'-lh55-', b'- lh5-', b'-LH5-', b'-PM2-']
    for j, sn in enumerate(sig_near):
        for lead in (0, 1, 2, 3, 30):
            P_ = rb(lead) + sn + rb(rnd.choice([8, 9, 21, 100]))
            if re.search(rb'-l..-|-pm.-', P_, re.S):
                continue
            out.append(('near-miss-signature', P_))
    for mk in MARKERS:
        for gap in range(0, 36):
            dec = rnd.choice(DECOYS)
            out.append(('decoy-%s-gap' % mk[:3].decode(), rb(rnd.choice([0, 5, 40])) + mk + rb(gap) + dec + rb(rnd.choice([30, 31, 64, 200]))))
        # the decoy may sit anywhere behind the marker (real self-extractors: hundreds to thousands of bytes), up to the scan limit
        for gap in [100, 394, 642, 1000, 3537, 4095, 4096, 4097, 9000, 60000, 200000] + [rnd.randrange(36, 150000) for _ in range(2 if tier == 'quick' else 20)]:
            dec = rnd.choice(DECOYS)
            out.append(('decoy-%s-far' % mk[:3].decode(), rb(rnd.choice([0, 5, 40])) + mk + rb(gap) + dec + rb(rnd.choice([30, 64, 2000]))))
    return out


def member_list(ev_read, ev_check):
    """canonical comparable form of what a reader yielded"""
    out = []
    cur = None
    for k, d in ev_read:
        if k == 'next':
            if d is None:
                out.append('END')
                break
            cur = {f: d[f] for f in ('level', 'path', 'filename', 'symlink', 'method', 'packed', 'size', 'os', 'crc', 'time', 'flags',
                                     'perms', 'uid', 'gid', 'os9', 'user', 'group', 'win', 'fake')}
            out.append(cur)
        elif k == 'readall' and cur is not None:
            cur['data_n'] = d['n']
            cur['data_crc'] = d['crc']
    i = 0
    for k, d in ev_check:
        if k == 'check':
            if i < len(out) and isinstance(out[i], dict):
                out[i]['verdict'] = d['result']
            i += 1
    return out


def first_header_offset(A):
    """offset of the first method signature in A (the archive's own self-extractor stub, if any, precedes it)"""
    for i in range(max(0, len(A) - 6)):
        if A[i + 2] == 0x2d and A[i + 6] == 0x2d:
            t = A[i + 3:i + 6]
            if t[:2] == b'lh' or (t[:2] == b'lz' and t[2:3] in (b'4', b'5', b's')) or (t[:2] == b'pm' and t[2:3] != b's'):
                return i
    return len(A)


def shard(seed, items, tier):
    """items: (name, A, [(class, P)...])"""
    sh = core.Shard()
    rnd = random.Random(seed)
    cases, plan = [], []
    for name, A, prefs in items:
        own = first_header_offset(A)
        # the statement allows up to 255 KiB before the first header *in total*: an archive that already carries its own
        # self-extractor stub only gets prefixes that keep the sum below that
        variants = [('bare', b'')] + [(c_, P_) for c_, P_ in prefs if own + len(P_) < 255 * 1024]
        for cls, P in variants:
            data = P + A
            kinds = [0, 1, 2, 3] if cls == 'bare' else ([2] + rnd.sample([0, 1, 3], 2) if len(data) < 100000 else [rnd.choice([0, 1, 2, 3])])
            for kind in kinds:
                c1 = rdh.RCase(data, [(rdh.OP_WALK, 2)], kind=kind, meta=(name, cls, kind))
                c2 = rdh.RCase(data, [(rdh.OP_WALK, 3)], kind=kind, meta=(name, cls, kind))
                c0 = rdh.RCase(data, [(rdh.OP_WALK, 0)], kind=kind, meta=(name, cls, kind))     # list only: every member's data is skipped
                cases += [c1, c2, c0]
                plan.append((name, cls, kind, c1, c2, len(P), c0))

    def on_crash(case, cls, key, err):
        sh.violation('C16-crash:' + key, 'reading %s (%s, %s): %s: %s' % (case.meta[0], case.meta[1], rdh.KIND_NAMES[case.meta[2]], cls, err[-800:]), case.archive)
    res = rdh.run_batch(_EXE, cases, sh, label='c16', on_crash=on_crash)
    ref = {}
    def headers_only(ev):
        return [({f: d[f] for f in ('path', 'filename', 'method', 'size', 'crc', 'packed', 'fake')} if d else 'END') for k, d in ev if k == 'next']
    for name, cls, kind, c1, c2, plen, c0 in plan:
        e1, e2, e0 = res.get(c1.id), res.get(c2.id), res.get(c0.id)
        if e1 is None or e2 is None or e0 is None:
            continue
        if rdh.abandoned(e1) or rdh.abandoned(e2) or rdh.abandoned(e0):
            # non-termination is C13's subject (skip-less callbacks on truncated data); it makes the lists incomparable here
            sh.count('incomparable_budget_hits')
            continue
        ml = member_list(e1, e2)
        if cls == 'bare' and kind == 2:
            ref[name] = ml
    for name, cls, kind, c1, c2, plen, c0 in plan:
        e1, e2, e0 = res.get(c1.id), res.get(c2.id), res.get(c0.id)
        if e1 is None or e2 is None or e0 is None or name not in ref or rdh.abandoned(e1) or rdh.abandoned(e2) or rdh.abandoned(e0):
            continue
        ml = member_list(e1, e2)
        h0, h1 = headers_only(e0), headers_only(e1)
        if h0 != h1:
            k = next((i for i, (a, b) in enumerate(zip(h0, h1)) if a != b), min(len(h0), len(h1)))
            sh.violation('C16-list-vs-read-differ:%s' % rdh.KIND_NAMES[kind], '%s via %s (prefix %s): walking without reading returned %d headers, walking '
                         'and reading every member %d; first difference at %d' % (name, rdh.KIND_NAMES[kind], cls, len(h0), len(h1), k), c1.archive)
        nmem = sum(1 for x in ref[name] if isinstance(x, dict))
        sh.evaluated(c1.archive[:64] + repr((name, cls, kind, plen)).encode(), nontrivial=nmem > 0 and not (cls == 'bare' and kind == 2))
        sh.hist('triples_by_stream_kind', rdh.KIND_NAMES[kind])
        sh.hist('triples_by_prefix_class', cls)
        sh.hist('header_offset_mod_24', plen % 24)
        if ml != ref[name]:
            k = next((i for i, (a, b) in enumerate(zip(ml, ref[name])) if a != b), min(len(ml), len(ref[name])))
            a = ml[k] if k < len(ml) else None
            b = ref[name][k] if k < len(ref[name]) else None
            diff = {f: (a.get(f), b.get(f)) for f in a if isinstance(a, dict) and isinstance(b, dict) and a.get(f) != b.get(f)} if isinstance(a, dict) and isinstance(b, dict) else (repr(a)[:80], repr(b)[:80])
            sh.violation('C16-members-differ:%s:%s' % (rdh.KIND_NAMES[kind], cls.split('-len')[0] if cls.startswith('stub') else cls),
                         '%s via %s with prefix class %s (len %d): %d members vs %d in the reference; first difference at member %d: %s'
                         % (name, rdh.KIND_NAMES[kind], cls, plen, len(ml), len(ref[name]), k, str(diff)[:300]), c1.archive)
    if plan:
        sh.sample({'archive': plan[0][0], 'prefix_class': plan[-1][1], 'prefix_len': plan[-1][5], 'stream_kind': rdh.KIND_NAMES[plan[-1][2]]})
    return sh


def cli_part(ctx, exe, items):
    root = os.path.join(build.scratch_root(), 'c16cli')
    os.makedirs(root, exist_ok=True)

    def one(it):
        i, (name, A) = it
        p = os.path.join(root, 'a%d.lzh' % i)
        open(p, 'wb').write(A)
        r1 = cli.run_lha(exe, ['t', p], root)
        r2 = cli.run_lha(exe, ['t', '-'], root, stdin=A)           # subprocess feeds stdin through a pipe
        l1 = cli.run_lha(exe, ['l', p], root)                      # listing skips every member's data
        l2 = cli.run_lha(exe, ['l', '-'], root, stdin=A)
        f = open(p, 'rb')
        e = {'PATH': '/usr/bin:/bin', 'TZ': 'UTC'}
        r3 = subprocess.run([exe, 't', '-'], stdin=f, capture_output=True, cwd=root, env=e)   # redirected file: seekable stdin
        f.close()
        return name, A, r1, r2, (r3.returncode, r3.stdout, r3.stderr), l1, l2
    with ThreadPoolExecutor(max_workers=16) as ex:
        for name, A, r1, r2, r3, l1, l2 in ex.map(one, list(enumerate(items))):
            ctx.count('cli_triples')
            ctx.cov['evaluations'] += 1
            def nofootdate(b_):
                # the footer's date column is the modification time of the archive *file* (fstat of the stream): for a pipe that is
                # the moment the pipe was made, so it is not a property of the members and is left out of the comparison
                ls = b_.split(b'\n')
                for k_ in range(len(ls)):
                    if ls[k_].startswith(b' Total '):
                        ls[k_] = ls[k_][:-12]
                return b'\n'.join(ls)
            if (l1[0], nofootdate(l1[1])) != (l2[0], nofootdate(l2[1])):
                ctx.violation('C16-cli-list-differs:pipe', "'lha l %s' and 'cat %s | lha l -' differ: exit %d vs %d, %d vs %d lines of output"
                              % (name, name, l1[0], l2[0], l1[1].count(b'\n'), l2[1].count(b'\n')), A)
            for tag, r in (('pipe', r2), ('redirect', r3)):
                if (r[0], r[1]) != (r1[0], r1[1]):
                    ctx.violation('C16-cli-differs:' + tag, "'lha t %s' and 'lha t -' (%s) differ: exit %d vs %d, stdout %r vs %r"
                                  % (name, tag, r1[0], r[0], r1[1][-80:], r[1][-80:]), A)
    shutil.rmtree(root, ignore_errors=True)


def huge_part(ctx, exe):
    """Members whose stored data is really 2 GiB and more (a hole in a sparse file on the scratch tmpfs, so it costs nothing):
    a skip of that width through a seek (file by name, redirected stdin) and through read-and-discard (pipe) must find the
    same members behind it.  Listing only: nothing is decoded."""
    root = os.path.join(build.scratch_root(), 'c16huge')
    os.makedirs(root, exist_ok=True)
    sizes = [(1 << 31) + 16] if ctx.tier == 'quick' else [(1 << 31) - 1, 1 << 31, (1 << 31) + 16, 3 << 30, (1 << 32) - 1]
    e = {'PATH': '/usr/bin:/bin', 'TZ': 'UTC', 'TEST_NOW_TIME': '1700000000'}
    for k, size in enumerate(sizes):
        lvl = (1, 2)[k % 2]
        m = H.simple_member(b'big.bin', b'', level=lvl, method=b'-lh0-', size=size, crc=0)
        m['data'] = b''
        extra = len(H.build_header(m)[0]) - 2 - H.build_header(m)[0][0] if lvl == 1 else 0     # level 1: the field also counts the extended headers
        if size + extra >= 1 << 32:
            size = (1 << 32) - 1 - extra
            m['size'] = size
        m['packed_field'] = size + extra
        hdr = H.build_header(m)[0]
        tail = H.build(H.simple_member(b'after.txt', b'the member behind the big one', level=2)) + b'\0'
        p = os.path.join(root, 'huge%d.lzh' % k)
        with open(p, 'wb') as f:
            f.write(bytes(hdr))
            f.seek(size, 1)
            f.write(tail)
        outs = {}
        r = subprocess.run([exe, 'l', p], capture_output=True, cwd=root, env=e, timeout=900)
        outs['file'] = (r.returncode, r.stdout)
        with open(p, 'rb') as f:
            r = subprocess.run([exe, 'l', '-'], stdin=f, capture_output=True, cwd=root, env=e, timeout=900)
        outs['redirect'] = (r.returncode, r.stdout)
        cat = subprocess.Popen(['cat', p], stdout=subprocess.PIPE)
        r = subprocess.run([exe, 'l', '-'], stdin=cat.stdout, capture_output=True, cwd=root, env=e, timeout=900)
        cat.stdout.close()
        cat.wait()
        outs['pipe'] = (r.returncode, r.stdout)
        os.unlink(p)

        def names(o):
            return [l.split()[-1] for l in o[1].split(b'\n') if l.endswith((b'big.bin', b'after.txt'))]
        ctx.count('huge_member_listings', 3)
        ctx.cov['evaluations'] += 3
        ctx.hist('huge_member_sizes', str(size))
        if names(outs['pipe']) != [b'big.bin', b'after.txt']:
            raise core.HarnessFailure('huge-member archive (level %d, %d bytes) is not listed as two members through a pipe: %r' % (lvl, size, outs['pipe']))
        for kind in ('file', 'redirect'):
            if names(outs[kind]) != names(outs['pipe']) or outs[kind][0] != outs['pipe'][0]:
                ctx.violation('C16-cli-list-differs:huge-member:' + kind, "a stored member of %d bytes followed by another: 'lha l' lists %s (exit %d) from the %s "
                              'and %s (exit %d) through a pipe' % (size, names(outs[kind]), outs[kind][0], kind, names(outs['pipe']), outs['pipe'][0]),
                              bytes(hdr) + b'<%d bytes>' % size + tail)
    shutil.rmtree(root, ignore_errors=True)


def run(ctx):
    global _EXE
    b = build.Builder()
    _EXE = b.harness('asan', 'reader', ['h_reader.c'], wrap_alloc=True)
    exe_cli = b.cli('plain')
    rnd = random.Random(ctx.seed)
    corp = corpus(ctx.tier, rnd)
    gen = [('generated-%d' % i, arc.archive(c15.random_archive(rnd))) for i in range(20 if ctx.tier == 'quick' else 200)]
    # members whose stored size sits on and around powers of two and their multiples (what a block-wise read-and-discard
    # skip, a seek, and a callback skip must all agree on), each followed by further members
    sizes = [0, 1, 31, 32, 33, 63, 64, 65, 255, 256, 257, 511, 512, 513, 1023, 1024, 1025, 2048, 4095, 4096, 4097, 8191, 8192, 8193,
             12288, 16384, 3 * 4096 + 1, 32768, 65535, 65536, 65537, 2 * 65536, 100000]
    sizes += [rnd.randrange(2, 70000) for _ in range(4 if ctx.tier == 'quick' else 60)]
    if ctx.tier == 'thorough':
        sizes += [k * 4096 for k in range(5, 33)] + [k * 512 for k in range(3, 40)] + [1 << 20, (1 << 20) + 1]
    sizes = list(dict.fromkeys(sizes))
    skipsz = []
    for j, sz in enumerate(sizes):
        lv = j % 4
        ms = [arc.file_member(rnd, '-lh0-', b'first.bin', size=sz, level=lv), arc.file_member(rnd, '-lh5-', b'second.bin', size=40, level=(lv + 1) % 4),
              arc.file_member(rnd, '-lz4-' if j % 2 else '-lh0-', b'third.bin', size=sizes[(j * 7 + 3) % len(sizes)] % 70000, level=lv),
              arc.file_member(rnd, '-lh1-', b'fourth.bin', size=9, level=1)]
        skipsz.append(('skip-size-%d#%d' % (sz, j), arc.archive(ms)))
    # first headers of particular total sizes (a level-2/3 header starts with its own size: 256 -> 00 01, 512 -> 00 02, ...), so that
    # the first bytes behind a stub take unusual values
    from ..lhamodel import header as H
    hdrsz = []
    for lvl in (2, 3, 1, 0):
        for target in ((255, 256, 257, 511, 512, 513, 768, 1024, 4096) if lvl >= 2 else (60, 100, 255, 257)):
            for k in range(1, 5000):
                m = H.simple_member(b'n' * k, b'first', level=lvl)
                L = len(H.build_header(m)[0])
                if L >= target:
                    break
            if L != target:
                continue
            tail = [arc.file_member(rnd, '-lh5-', b'second.bin', size=30, level=1), arc.file_member(rnd, '-lh0-', b'third.bin', size=9, level=2)]
            hdrsz.append(('first-header-L%d-%dbytes' % (lvl, target), H.build(m) + b''.join(x.bytes() for x in tail) + b'\0'))
    # a first member that is tiny altogether (header of 23..26 bytes plus 0..9 bytes of data): header AND data fit into whatever was
    # read ahead while looking for the first header, so skipping that member happens partly or wholly inside the read-ahead
    for lvl in (0, 1):
        for nlen in (1, 2, 3):
            for dsz in (0, 1, 2, 3, 5, 8, 9):
                m = H.simple_member(b'abc'[:nlen], bytes(rnd.randrange(256) for _ in range(dsz)), level=lvl)
                tail = [arc.file_member(rnd, '-lh0-', b'second.txt', size=11, level=0), arc.file_member(rnd, '-lh5-', b'third.bin', size=30, level=2)]
                hdrsz.append(('tiny-first-member-L%d-name%d-data%d' % (lvl, nlen, dsz), H.build(m) + b''.join(x.bytes() for x in tail) + b'\0'))
    ctx.cov['first_header_size_archives'] = len(hdrsz)
    base = corp + gen + skipsz + hdrsz
    # truncations
    trunc = []
    for name, A in (base[:10] if ctx.tier == 'quick' else base[:80]):
        if len(A) > 4000 and ctx.tier == 'quick':
            continue
        cuts = sorted(set(rnd.randrange(len(A)) for _ in range(6))) if (ctx.tier == 'quick' or len(A) > 600) else range(len(A))
        for c in cuts:
            trunc.append(('%s@cut%d' % (name, c), A[:c]))
    prefs = prefixes(rnd, ctx.tier)
    items = []
    for i, (name, A) in enumerate(base + trunc):
        # every archive gets a slice of the prefix list; small generated archives carry the long tail
        k = 5 if ctx.tier == 'quick' else 12
        mine = [prefs[(i * k + j) % len(prefs)] for j in range(k)]
        items.append((name, A, mine))
    # make sure each prefix is used at least once
    small = [x for x in base if len(x[1]) < 3000] or base
    for j, pf in enumerate(prefs):
        name, A = small[j % len(small)]
        items.append((name + '#p%d' % j, A, [pf]))
    nsh = 16
    core.run_shards(ctx, shard, [(ctx.seed * 71 + i, items[i::nsh], ctx.tier) for i in range(nsh)])
    cli_part(ctx, exe_cli, (base[:60] + skipsz) if ctx.tier == 'quick' else base)
    huge_part(ctx, exe_cli)
    ctx.cov['skip_size_archives'] = len(skipsz)
    ctx.cov['prefix_variants'] = len(prefs)
    ctx.cov['archives'] = len(base)
    ctx.cov['truncated_variants'] = len(trunc)
    ctx.cov['rule'] = ('(archive, stream kind, prefix) triples; archives = corpus + generated + archives whose first header has a total size of 255..257, 511..513, 768, 1024, 4096 bytes + four-member archives whose first/third stored members have sizes on and around powers of two and multiples of 512/4096 + truncations; prefixes = stub bytes without "-" '
                       'and "L" at every length 0..64, around multiples of 12/24, near the 255 KiB limit, random lengths, near misses of the marker strings (prefixes, single-character changes, case changes), and marker+decoy forms at gaps up to 200 000 bytes and at '
                       'gaps 0..35; reference = callbacks-with-skip on the bare archive; distinct by (archive, kind, prefix); non-trivial = '
                       'archive has at least one member and the triple is not the reference itself')
    ctx.assumptions.append('prefix bytes are drawn from a subset that cannot form a signature across the P/A junction')


def replay(ctx, path):
    run(ctx)
