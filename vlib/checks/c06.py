"""C06 - extraction reproduces the archived tree: contents, names, times, modes, links.
Events: the directory tree under the extraction root after 'lha x|e ...' returns (walked as root: type, content, mode,
mtime, link target), stdout of 'p', exit status.  Oracle: lhamodel/fstree.py.  The tool runs as user nobody (so that
read-only directory permissions really forbid writing), umask 022, TZ=UTC, in a fresh root, under the fs guard."""
import os, random, shutil, stat, re
from concurrent.futures import ThreadPoolExecutor
from .. import build, core, cli, arc, streams, fsmon, rdh
from ..lhamodel import header as H, fstree, listing

LEVEL = 'exploration'
METHODS = streams.ALL_METHODS


def walk(top):
    out = {}
    for dp, dn, fn in os.walk(top, followlinks=False):
        for n in dn + fn:
            p = os.path.join(dp, n)
            st = os.lstat(p)
            rel = os.path.relpath(p, top).encode('utf-8', 'surrogateescape')
            if stat.S_ISLNK(st.st_mode):
                out[rel] = ('link', os.readlink(p).encode('utf-8', 'surrogateescape'), None, int(st.st_mtime))
            elif stat.S_ISDIR(st.st_mode):
                out[rel] = ('dir', None, stat.S_IMODE(st.st_mode), int(st.st_mtime))
            else:
                out[rel] = ('file', open(p, 'rb').read(), stat.S_IMODE(st.st_mode), int(st.st_mtime))
    return out


def norm_entries(entries, members):
    """attach the names the reader reports (case folding etc.) to the entries"""
    for e, x in zip(entries, members):
        n = H.normalise(x.m)
        e['npath'] = ((n['path'] or b'') + (n['filename'] or b'')) if n else None
        if n:
            # what the header really records (e.g. a level-0 Unix area is not honoured for PMarc methods)
            e['perms'] = n['perms'] if (n['flags'] & H.F_PERMS) else None
            e['mtime'] = n['time']
    return entries


def expected(entries, prefix=b'', flatten=False, selected=None):
    es = []
    for k, e in enumerate(entries):
        if e.get('npath') is None:
            continue
        e2 = dict(e)
        e2['path'] = e['npath'] + (b'/' if e['kind'] == 'dir' and not e['npath'].endswith(b'/') else b'')
        es.append((k, e2))
    sel = None if selected is None else set(selected)
    kept = [e2 for k, e2 in es if sel is None or k in sel]
    return fstree.expected_tree(kept, prefix, flatten)


def compare(viol, tag, cmd, exp, got, root_rel=b''):
    for p, (typ, payload, mode, mtime) in sorted(exp.items()):
        g = got.get(p)
        if typ == 'dangerous-link':
            # created last; timing and the holding directory's timestamp are outside the guarantee (C10 checks *when* they
            # appear) - but where the holding directory is still writable at the end, the link must exist with its target
            i = p.rfind(b'/')
            parent = exp.get(p[:i]) if i >= 0 else None
            writable = (i < 0 and not root_rel) or parent is None or parent[2] is None or (parent[2] & 0o200)
            if writable and (i < 0 or p[:i] in got or parent is None):
                if g is None or g[0] != 'link' or g[1] != payload:
                    viol.append(('C06-dangerous-link-not-created:%s' % tag, "'lha %s': link %r -> %r is %s at the end of extraction"
                                 % (cmd, p, payload, 'missing' if g is None else 'a %s -> %r' % (g[0], g[1]))))
            continue
        if g is None:
            viol.append(('C06-missing:%s:%s' % (typ, tag), "'lha %s': %s %r was not extracted" % (cmd, typ, p)))
            continue
        if g[0] != typ:
            viol.append(('C06-wrong-type:%s:%s' % (typ, tag), "'lha %s': %r is a %s, archived as %s" % (cmd, p, g[0], typ)))
            continue
        if typ == 'file':
            if g[1] != payload:
                viol.append(('C06-content:%s' % tag, "'lha %s': %r has %d bytes, archived %d (first difference at %s)"
                             % (cmd, p, len(g[1]), len(payload), next((i for i in range(min(len(g[1]), len(payload))) if g[1][i] != payload[i]), 'length'))))
            # permission bits; the set-id bits of a file that was written to are subject to OS policy (the kernel clears them when an
            # unprivileged process writes), so they are compared only for files that received no data
            mask = 0o777 if payload else 0o6777
            if mode is not None and (g[2] & mask) != (mode & mask):
                viol.append(('C06-file-mode:%s' % tag, "'lha %s': %r has mode %o, recorded %o" % (cmd, p, g[2], mode)))
            if mtime and g[3] != mtime:
                viol.append(('C06-file-mtime:%s' % tag, "'lha %s': %r has mtime %d, recorded %d" % (cmd, p, g[3], mtime)))
        elif typ == 'link':
            if g[1] != payload:
                viol.append(('C06-link-target:%s' % tag, "'lha %s': link %r points to %r, recorded %r" % (cmd, p, g[1], payload)))
        elif typ == 'dir':
            if mode is not None and g[2] != mode:
                viol.append(('C06-dir-mode:%s' % tag, "'lha %s': directory %r has mode %o, recorded %o" % (cmd, p, g[2], mode)))
            if mtime and g[3] != mtime:
                viol.append(('C06-dir-mtime:%s' % tag, "'lha %s': directory %r has mtime %d, recorded %d (its children were written after it was created)"
                             % (cmd, p, g[3], mtime)))


def one(job):
    n, tag, entries, A, cmd, pats, pre, answers, base, exe, so = job
    viol = []
    d = os.path.join(base, 'r%d' % n)
    root = os.path.join(d, 'root')
    os.makedirs(d)
    cli.mkdir_for_nobody(root)
    ap = os.path.join(d, 'a.lzh')
    open(ap, 'wb').write(A)
    os.chmod(ap, 0o644)
    os.chmod(d, 0o755)
    if 'w=existing' in cmd:
        cli.mkdir_for_nobody(os.path.join(root, 'existing'))
    for p, content in (pre or {}).items():
        fp = os.path.join(root.encode(), p)
        os.makedirs(os.path.dirname(fp), exist_ok=True)
        dd = os.path.dirname(fp)
        while len(dd) > len(root):
            os.chown(dd, 65534, 65534)
            dd = os.path.dirname(dd)
        open(fp, 'wb').write(content)
        os.chown(fp, 65534, 65534)
        os.utime(fp, (86400 * 365 * 20, 86400 * 365 * 20))
    rc, so_, se, evs = fsmon.run_monitored(exe, so, [cmd, '../a.lzh'] + [p.decode('latin1') for p in pats], root, stdin=answers, env={'VERIF_FS_ROOT': root})
    # make everything readable for the walk (we are root, so modes do not block us) and snapshot
    got = walk(root)
    stats = {'rc': rc, 'entries': len(entries), 'got': len(got), 'denied': sum(1 for e in evs if e.denied == 1),
             'dir_metadata_after_children': sum(1 for e in evs if e.call in ('chmod', 'utime') and (e.arg or b'').endswith(b'/'))}
    shutil.rmtree(d, ignore_errors=True)
    return n, tag, cmd, pats, A, rc, so_, se, got, stats, job


def judge(ctx, res):
    n, tag, cmd, pats, A, rc, so_, se, got, stats, job = res
    entries, pre, answers = job[2], job[7 - 1], job[7]
    viol = []
    if rc == -999:
        ctx.count('inconclusive_watchdog')        # the runner's 60 s wall-clock watchdog fired (a loaded machine): no verdict either way
        return viol
    opts = cmd[1:]
    wdir = None
    m = re.search(r'w=?(.*)$', opts)
    if m:
        wdir = m.group(1).encode()
        opts = opts[:m.start()]
    flatten = 'i' in opts
    quiet = 2 if re.search(r'q(?!\d)', opts) else (int(re.search(r'q(\d)', opts).group(1)) if 'q' in opts else 0)
    force = 'f' in opts or 'q' in opts
    sel = None
    if pats:
        sel = [k for k, e in enumerate(entries) if e.get('npath') is not None and any(listing.glob_match(p, e['npath']) for p in pats)]
    if cmd[0] == 'p':
        # banner + exact bytes of every selected file, symlink lines, directories ignored
        exp = b''
        for k, e in enumerate(entries):
            if e.get('npath') is None or (sel is not None and k not in sel):
                continue
            nm = listing.safe(e['npath'])
            if e['kind'] == 'link':
                if quiet < 2:
                    exp += b'Symbolic Link ' + nm + b' -> ' + listing.safe(e['target']) + b'\n'
            elif e['kind'] == 'file':
                if quiet < 2:
                    exp += b'::::::::\n' + nm + b'\n::::::::\n'
                exp += e['plain']
        if so_ != exp:
            k = next((i for i in range(min(len(so_), len(exp))) if so_[i] != exp[i]), min(len(so_), len(exp)))
            viol.append(('C06-print-output:%s' % tag, "'lha %s %s': stdout differs from banner+contents at byte %d (%d vs %d bytes)" % (cmd, pats, k, len(so_), len(exp))))
        if got:
            viol.append(('C06-print-created-files', "'lha %s' left %d objects on disk" % (cmd, len(got))))
    else:
        prefix = (wdir.rstrip(b'/') + b'/') if wdir else b''
        exp = expected(entries, prefix, flatten, sel)
        # overwrite policy
        if pre:
            policy = 'all' if force else 'prompt'
            ans = list((answers or b'').decode().split('\n'))
            for k, e in enumerate(entries):
                if e['kind'] != 'file' or e.get('npath') is None or (sel is not None and k not in sel):
                    continue
                p = prefix + (e['npath'].rsplit(b'/', 1)[-1] if flatten else e['npath'])
                if p in pre:
                    replace = True
                    if policy == 'prompt':
                        replace = None
                        while replace is None:
                            a = (ans.pop(0) if ans else '')[:1].lower()
                            if a == 'y':
                                replace = True
                            elif a in ('n', ''):
                                replace = False
                            elif a == 'a':
                                replace, policy = True, 'all'
                            elif a == 's':
                                replace, policy = False, 'skip'
                    elif policy == 'skip':
                        replace = False
                    if not replace:
                        exp[p] = ['file', pre[p], None, None]
            # directories that existed before the run (parents of the pre-existing files) keep whatever metadata they had
            for p in pre:
                parts = p.split(b'/')[:-1]
                for i in range(1, len(parts) + 1):
                    dpath = prefix + b'/'.join(parts[:i])
                    if dpath in exp and exp[dpath][0] == 'dir':
                        exp[dpath][2] = exp[dpath][3] = None
        compare(viol, tag, cmd, exp, got)
        if wdir and not os.path.isabs(wdir.decode()) and exp and not any(k.split(b'/')[0] == wdir.split(b'/')[0] for k in got):
            viol.append(('C06-w-not-created', "'lha %s': target directory was not created" % cmd))
        if rc != 0 and not any(v[0].startswith(('C06-missing', 'C06-content')) for v in viol):
            # a non-zero status with a complete tree: only legitimate when a dangerous link could not be created in a read-only directory
            dl = any(e['kind'] == 'link' and fstree.is_dangerous(e['target']) for e in entries)
            if not dl:
                viol.append(('C06-exit-status:%s' % tag, "'lha %s' exited %d although the whole tree was reproduced: %s" % (cmd, rc, se[-200:])))
    if rc < 0:
        viol.append(('C06-abnormal-exit', "'lha %s' ended by signal %d" % (cmd, -rc)))
    if stats['denied']:
        viol.append(('C06-escape', "'lha %s' tried to modify something outside the extraction root" % cmd))
    return viol


def run(ctx):
    b = build.Builder()
    exe = b.cli('plain')
    so = b.shared('fsmon', 'fsmon.c')
    rnd = random.Random(ctx.seed)
    base = os.path.join(build.scratch_root(), 'c06')
    os.makedirs(base, exist_ok=True)
    os.chmod(base, 0o755)
    jobs = []
    n = 0
    ntrees = 150 if ctx.tier == 'quick' else 2500
    optsets = ['x', 'e', 'xf', 'xq0', 'xq1', 'xq2', 'xq', 'xv', 'xfi', 'xfw=out', 'xfw=new/deep/er', 'xfw=existing', 'xfv', 'efq',
               'xfiw=out', 'efiw=new/deep/er', 'xiq2w=out2', 'xfivw=existing']     # options in combination, not only one at a time
    for t in range(ntrees):
        entries = fstree.gen_tree(rnd, METHODS, maxdepth=rnd.choice([1, 2, 4, 5])) if t else \
            fstree.mac_plain_tree(rnd, [m for m in ('-lh0-', '-lz4-', '-lh5-', '-lz5-', '-lzs-', '-lh1-', '-pm2-') if m in METHODS])
        if not entries:
            continue
        ms = fstree.to_members(entries, rnd, arc, streams)
        norm_entries(entries, ms)
        A = arc.archive(ms)
        names = [e['npath'] for e in entries if e.get('npath')]
        for cmd in rnd.sample(optsets, 5 if ctx.tier == 'quick' else 8):
            pre = None
            if 'existing' in cmd:
                pre = {}
            ent = entries
            if 'i' in cmd[1:].split('w')[0]:
                # flattening: keep basenames unique, otherwise "last one wins" would be modelled, not demanded
                seen = set()
                keep = []
                for e in entries:
                    bn = (e.get('npath') or b'').rsplit(b'/', 1)[-1]
                    if e['kind'] != 'dir' and bn in seen:
                        keep = None
                        break
                    seen.add(bn)
                if keep is None:
                    continue
            n += 1
            jobs.append((n, 'tree', ent, A, cmd, [], None, b'', base, exe, so))
        # wildcard selections
        if names:
            for _ in range(2 if ctx.tier == 'quick' else 4):
                nm = rnd.choice(names)
                cand = [[nm], [nm[:max(1, len(nm) // 2)] + b'*'], [b'*' + nm[-3:]], [b'*/' + nm.rsplit(b'/', 1)[-1]] if b'/' in nm else [b'?' * len(nm)],
                        [b'no-such*'], [nm, b'*.txt'], [nm.replace(nm[:1], b'?', 1)], [nm.upper() if nm.upper() != nm else nm.lower()]]
                cand += [[listing.glob_from(rnd, nm)], [listing.glob_from(rnd, nm), listing.glob_from(rnd, rnd.choice(names))], [listing.glob_from(rnd, nm)]]
                pats = rnd.choice(cand)
                if any(b'*' in p[:1] and False for p in pats):
                    continue
                n += 1
                jobs.append((n, 'wildcard', entries, A, rnd.choice(['xf', 'xq', 'p', 'pq', 'xfw=sel']), pats, None, b'', base, exe, so))
        # print
        n += 1
        jobs.append((n, 'print', entries, A, rnd.choice(['p', 'pq', 'pq1', 'pq2']), [], None, b'', base, exe, so))
        # overwrite policies with pre-existing files
        files = [e for e in entries if e['kind'] == 'file' and e.get('npath')]
        if len(files) >= 2:
            # answers typed as whole words or sentences: only the first character of a line counts and the rest of the line,
            # however long (lengths around the sizes a line buffer might have), belongs to that answer and to no later prompt
            def wordy_script():
                out = []
                for _ in range(24):
                    ln = rnd.choice([2, 3, 14, 15, 16, 17, 31, 32, 33, 63, 64, 65, 300, 5000])
                    out.append((rnd.choice('ynYN') + ''.join(rnd.choice('ynas ') for _ in range(ln - 1))).encode())
                return b'\n'.join(out) + b'\n'
            for wordy, (cmd, answers) in [(True, ('x', wordy_script())), (True, ('xv', wordy_script())),
                                          (True, ('x', b'No, keep that one as it is\nyes, replace this one please\n' * 12))] + [(False, x) for x in (('x', b'y\nn\ny\nn\n' * 6), ('x', b'n\n' * 20), ('x', b'a\n'), ('x', b's\n'), ('x', b'q\n\nzz\ny\n' + b'y\n' * 20), ('xf', b''), ('xq', b''),
                                 ('x', b'Y\nN\nA\n'), ('x', b'n\ns\n'),
                                 # every quiet level implies 'f' (also level 0), whatever the order of the option letters and
                                 # whatever waits on standard input
                                 ('xq0', b''), ('xq1', b'n\n' * 9), ('xq2', b''), ('eq0', b'n\n' * 9), ('xq0v', b''), ('xvq0', b's\n'),
                                 ('xq0f', b''), ('ef', b'n\n' * 9), ('xfq1', b''))]:
                if ctx.tier == 'quick' and rnd.random() < 0.6 and not wordy:
                    continue
                pre = {}
                for e in rnd.sample(files, min(len(files), rnd.randrange(1, 4))):
                    pre[e['npath']] = b'OLD CONTENT %d' % rnd.randrange(1000)
                n += 1
                jobs.append((n, 'overwrite', entries, A, cmd, [], pre, answers, base, exe, so))
    with ThreadPoolExecutor(max_workers=16) as ex:
        for res in ex.map(one, jobs):
            n_, tag, cmd, pats, A, rc, so_, se, got, stats, job = res
            ctx.evaluated(A + cmd.encode() + b'|'.join(pats) + repr(sorted((job[6] or {}).items())).encode() + (job[7] or b''), nontrivial=len(job[2]) >= 2)
            ctx.hist('runs_by_class', tag)
            ctx.hist('runs_by_command', cmd.split('=')[0])
            ctx.count('entries_extracted', stats['got'])
            ctx.count('directory_metadata_ops_observed', stats['dir_metadata_after_children'])
            ro = sum(1 for e in job[2] if e['kind'] == 'dir' and e['perms'] in (0o40555, 0o40500))
            ctx.count('read_only_directories_in_archives', ro)
            ctx.cov['max_depth'] = max(ctx.cov.get('max_depth', 0), max((e['path'].count(b'/') for e in job[2]), default=0))
            for k, w in judge(ctx, res):
                ctx.violation(k, w, A)
    library_policies(ctx, b, rnd, base)
    ctx.cov['rule'] = ('generated trees (nested directories incl. read-only ones with children, files of every method incl. empty, safe and dangerous links, MacLHA '
                       'members with valid and near-miss MacBinary envelopes, header levels 0-3) in directory-first order x option sets {x,e,f,q0-2,v,i,w=} + '
                       'wildcard lists + print + overwrite policies with scripted answers + three library directory policies; distinct by archive+command+'
                       'patterns+pre-existing files+answers; non-trivial = tree of at least two entries')
    ctx.sample({'command': jobs[0][4], 'entries': [(e['kind'], e['path'].decode('latin1')) for e in jobs[0][2][:8]]})
    ctx.assumptions += ['ownership is not observable as user nobody (chown fails and is ignored by design)',
                        'dangerous links and the timestamps of the directories holding them are outside the guarantee',
                        'PLAIN library policy: contents and modes only, writable directories only']
    shutil.rmtree(base, ignore_errors=True)


def library_policies(ctx, b, rnd, base):
    """lha_reader_extract through the three directory policies (harness as user nobody)."""
    exe = b.harness('asan', 'reader', ['h_reader.c'], wrap_alloc=True)
    ntrees = 10 if ctx.tier == 'quick' else 300
    cases, meta = [], []
    for t in range(ntrees):
        entries = fstree.gen_tree(rnd, METHODS, maxdepth=3, mac=False)
        entries = [e for e in entries if not (e['kind'] == 'link' and fstree.is_dangerous(e['target']))]
        if not entries:
            continue
        for policy in (0, 1, 2):
            ent = [dict(e) for e in entries]
            if policy == 0:
                for e in ent:
                    if e['kind'] == 'dir' and e['perms'] in (0o40555, 0o40500):
                        e['perms'] = 0o40755
            ms = fstree.to_members(ent, rnd, arc, streams)
            norm_entries(ent, ms)
            cases.append(rdh.RCase(arc.archive(ms), [(rdh.OP_WALK, 4)], kind=0, policy=policy, flags=rdh.F_HDRPATHS, meta=(policy, ent)))
    wd = os.path.join(base, 'lib')
    os.makedirs(wd, exist_ok=True)
    os.chmod(wd, 0o777)
    sh = core.Shard()
    res = rdh.run_batch(exe, cases, sh, label='c06lib', workdir=wd, prefix_cmd=cli.NOBODY,
                        on_crash=lambda c, cls, key, err: sh.violation('C06-lib-crash:' + key, err[:800], c.archive), env_extra={'TZ': 'UTC'})
    core.merge_shard(ctx, sh)
    for c in cases:
        policy, ent = c.meta
        ev = res.get(c.id)
        if ev is None:
            continue
        got = walk(os.path.join(wd, str(c.id)))
        exp = expected(ent)
        if policy == 0:
            for k in exp:
                if exp[k][0] == 'dir':
                    exp[k][3] = None      # PLAIN: metadata at creation cannot survive the children being written
        viol = []
        compare(viol, 'library-policy-%d' % policy, 'lha_reader_extract', exp, got)
        ctx.evaluated(c.archive + bytes([policy]), nontrivial=True)
        ctx.hist('library_policy_runs', policy)
        for k, w in viol:
            ctx.violation(k, w, c.archive)
    import subprocess
    subprocess.run(['chmod', '-R', 'u+rwx', wd], capture_output=True)
    shutil.rmtree(wd, ignore_errors=True)


def replay(ctx, path):
    run(ctx)
