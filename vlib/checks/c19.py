"""C19 - list output renders every member's header fields faithfully in Unix-LHA layout.
Oracle: lhamodel/listing.py (self-checked first against the listings recorded from the real Unix LHA tool in the repo's
test/output) applied to header.normalise(fields) of generated members; stdout must be equal byte for byte, under TZ=UTC,
a fixed TEST_NOW_TIME and a fixed archive mtime."""
import os, random, shutil, time
from concurrent.futures import ThreadPoolExecutor
from .. import build, core, cli, arc
from ..lhamodel import header as H, listing, selfcheck
from ..lhamodel.crc16 import crc16
from . import c05

LEVEL = 'exploration'
NOW = 1335830400
SIXM = 6 * 30 * 24 * 3600
CMDS = ['l', 'lv', 'v', 'vv']
TIMES = [0, 1, NOW - SIXM - 1, NOW - SIXM, NOW - SIXM + 1, NOW, NOW + 1, NOW + 86400 * 400, 2 ** 31 - 1, 2 ** 31, 2 ** 31 + 1, 2 ** 32 - 1,
         946684800, 315532800]


def mk(level, name=b'f', path=None, method=b'-lh5-', size=10, packed=None, os_type=ord('U'), t=1000000000, perms=None, uidgid=None,
       os9=None, target=None, crc=0x1234):
    """member dict with exactly the listed attributes (no data: list commands never read it; packed size is a field)"""
    data = b''
    if target is not None:
        m = H.symlink_member((path or b'') + name, target, level=level, mtime=t, uidgid=uidgid)
        return m
    if method == b'-lhd-':
        m = H.dir_member((path or b'd/'), level=level, os_type=os_type, mtime=t, perms=perms, uidgid=uidgid)
    else:
        m = H.simple_member(name, b'', level=level, method=method, os_type=os_type, mtime=t, perms=perms, uidgid=uidgid, path=path or b'')
        m['size'] = size
        m['crc'] = crc
    if os9 is not None:
        if level == 0:
            x = H.u16(os9)
            m['area'] = b'9' + x + bytes(6) + b'\xcc' + bytes(7) + x + bytes(3)
            m.pop('exts', None)
        else:
            m['exts'] = [e for e in m['exts'] if e[0] not in (0x50,)] + [(0xcc, bytes(7) + H.u16(os9) + bytes(3))]
    m['packed_field'] = (size if packed is None else packed) if method != b'-lhd-' else 0
    if level == 1:
        # the level-1 size field covers the extended headers too
        m['packed_field'] += H.ext_chain(m.get('exts', []), 2)[2]
    if level in (0, 1) and 'dostime' in m:
        pass
    return m


def archive_of(members):
    """list-only archives: members carry no data, so the packed-size field must be skipped over by padding"""
    out = b''
    for m in members:
        n = H.normalise(m)
        pad = n['packed'] if n else 0
        if pad > 4096:
            pad = 0           # a huge declared size on the *last* member only (nothing follows it)
        mm = dict(m)
        mm['data'] = bytes(pad)
        if 'packed_field' not in mm:
            pass
        out += H.build_header(mm)[0] + bytes(pad)
    return out + b'\0'


def gen_archives(rnd, tier):
    """-> list of (tag, [member dicts])"""
    out = []
    # exhaustive Unix permission words x {file, dir, link}, batched
    rows = []
    for p in range(512):
        rows.append(mk(2, name=b'p%03o' % p, perms=0o100000 | p, uidgid=(p, 511 - p)))
        rows.append(mk(p % 4, method=b'-lhd-', path=b'd%03o/' % p, perms=0o040000 | p))
        rows.append(mk((p + 1) % 4, name=b'l%03o' % p, target=b'tgt', perms=0o120000 | p))
    # symlink perms are fixed by the builder; add explicit permission variety for links through level-2 headers
    for i in range(0, len(rows), 128):
        out.append(('unix-perms-exhaustive', rows[i:i + 128]))
    rows = []
    for p in range(256):
        rows.append(mk(1 + p % 3, name=b'o%02x' % p, os9=p, os_type=ord('9')))
        rows.append(mk(0, name=b'z%02x' % p, os9=p))
    rows += [mk(2, method=b'-lhd-', path=b'od%02x/' % p, os9=p, os_type=ord('9')) for p in (0x80, 0xbf, 0xff, 0x00)]
    for i in range(0, len(rows), 128):
        out.append(('os9-perms-exhaustive', rows[i:i + 128]))
    out.append(('os-types', [mk(1 + i % 3, name=b'os%d' % o, os_type=o) for i, o in enumerate(list(b'MwWU2CmJFRT9K3HaA \0xq~'))]))
    out.append(('timestamps', [mk(2 + i % 2, name=b't%d' % i, t=t) for i, t in enumerate(TIMES)] +
                [mk(0, name=b'dos%d' % i, t=t) for i, t in enumerate([NOW - SIXM, NOW - SIXM + 2, NOW - SIXM - 2, 946684800])]))
    out.append(('uid-gid-widths', [mk(2, name=b'u%d' % i, uidgid=ug, perms=0o100644) for i, ug in
                                   enumerate([(0, 0), (9, 9), (99999 % 65536, 1), (65535, 65535), (10000, 100), (1, 10000)])]))
    out.append(('sizes', [mk(2, name=b's%d' % i, size=s, packed=p) for i, (s, p) in enumerate(
        [(0, 0), (1, 1), (9999999, 1), (10 ** 7, 100), (0, 5), (5, 0), (3, 4000), (1000, 999), (1000, 995), (200, 1), (7, 3), (3, 7), (10 ** 7, 10 ** 7)])]))
    # ratio boundaries: pairs where single-precision arithmetic (what the real tool uses) and double precision round differently
    pairs = []
    for bsz in (2000, 3000, 700, 1900):
        for a in range(1, bsz):
            if "%5.1f" % listing.pct(a, bsz) != "%5.1f" % (a * 100.0 / bsz):
                pairs.append((a, bsz))
    rnd.shuffle(pairs)
    out.append(('ratio-float-boundaries', [mk(2, name=b'r%d' % i, size=bsz, packed=a) for i, (a, bsz) in enumerate(pairs[:60])]))
    out.append(('huge-size-alone', [mk(2, name=b'huge', size=2 ** 32 - 1, packed=17)]))
    out.append(('huge-packed-alone', [mk(3, name=b'hugep', size=12, packed=2 ** 32 - 1)]))
    for w in (1, 12, 13, 14, 19, 20, 21, 300):
        out.append(('name-width-%d' % w, [mk(2, name=b'n' * w, perms=0o100644), mk(1, name=b'm' * min(w, 200), path=b'dir/'), mk(3, name=b'k' * w, target=b'x' * w)]))
    # lengths around the powers of two (whatever buffers the formatting code may use): names, directory paths and link targets
    # of 60..66, 120..131, 250..260, 508..516 and 1000 characters
    lens = list(range(60, 67)) + list(range(120, 132)) + list(range(250, 261)) + list(range(508, 517)) + [1000]
    for i in range(0, len(lens), 8):
        ms = []
        for w in lens[i:i + 8]:
            ms.append(mk(2, name=b'N' + b'n' * (w - 1), perms=0o100644))
            ms.append(mk(2, name=b'x.txt', path=b'D' + b'd' * (w - 2) + b'/'))
            ms.append(mk(2, name=b'l%d' % w, target=b'T' + b't' * (w - 1)))
            ms.append(mk(3, name=b'L' + b'k' * (w - 1), target=b'tgt'))
        out.append(('string-lengths-%d..%d' % (lens[i], lens[min(i + 7, len(lens) - 1)]), ms))
    out.append(('single-file', [mk(2, name=b'only')]))
    out.append(('empty-archive-of-dirs', [mk(2, method=b'-lhd-', path=b'a/'), mk(1, method=b'-lhd-', path=b'a/b/')]))
    # random headers from the C05 generator (all levels, ext-header mixes), list-only
    n = 300 if tier == 'quick' else 6000
    for i in range(n):
        ms = []
        total_p = total_s = 0
        for _ in range(rnd.randrange(1, 9)):
            m = c05.gen(rnd)
            m['size'] = rnd.choice([0, 1, 77, 123456, 9999999, 10000000, rnd.randrange(1 << 24)])
            if H.normalise(m) is None:
                continue
            m['data'] = bytes(len(m['data']))
            ms.append(m)
        if ms:
            out.append(('random-headers', ms))
    return out


def one(job):
    n, tag, members, cmd, quiet, pats, mtime, base, exe = job
    d = os.path.join(base, 'r%d' % n)
    os.makedirs(d)
    A = archive_of(members) if tag != 'random-headers' else b''.join(H.build(m) for m in members) + b'\0'
    p = os.path.join(d, 'a.lzh')
    open(p, 'wb').write(A)
    os.utime(p, (mtime, mtime))
    rows = []
    for m in members:
        h = H.normalise(m)
        if h is None:
            break
        rows.append(h)
    sel = rows
    if pats:
        sel = [h for h in rows if any(listing.glob_match(pt, (h['path'] or b'') + (h['filename'] or b'')) for pt in pats)]
    arg = cmd[0] + ('v' if len(cmd) > 1 else '') + ('q%d' % quiet if quiet is not None else '')
    rc, so, se = cli.run_lha(exe, [arg, 'a.lzh'] + [pt.decode('latin1') for pt in pats], d, env={'TEST_NOW_TIME': str(NOW), 'TZ': 'UTC'})
    exp = listing.render(sel, cmd, NOW, mtime, quiet or 0)
    shutil.rmtree(d, ignore_errors=True)
    return n, tag, A, arg, pats, rc, so, exp, len(sel), sum(h['packed'] for h in sel), sum(h['size'] for h in sel)


def run(ctx):
    tot, bad, badfiles = selfcheck.listing_selfcheck(build.REPO)
    ctx.cov['renderer_selfcheck_recorded_listings'] = tot
    ctx.cov['renderer_selfcheck_differing'] = bad
    if tot < 500 or any('badterm' not in f for f in badfiles):
        raise core.HarnessFailure('list renderer disagrees with recorded real-tool listings: %s' % badfiles[:5])
    os.environ['TZ'] = 'UTC'
    time.tzset()
    b = build.Builder()
    exe = b.cli('plain')
    rnd = random.Random(ctx.seed)
    base = os.path.join(build.scratch_root(), 'c19')
    os.makedirs(base, exist_ok=True)
    jobs = []
    n = 0
    for tag, members in gen_archives(rnd, ctx.tier):
        names = []
        for m in members:
            h = H.normalise(m)
            if h:
                names.append((h['path'] or b'') + (h['filename'] or b''))
        for cmd in CMDS:
            variants = [(None, [])]
            if tag in ('random-headers', 'sizes', 'timestamps', 'ratio-float-boundaries', 'name-width-13', 'os-types') or ctx.tier == 'thorough':
                variants += [(rnd.choice([0, 1, 2]), [])]
                if names:
                    nm = rnd.choice(names)
                    safe = lambda x: bytes(c for c in x if 0x20 < c < 0x7f and c not in b'*?') or b'x'
                    variants += [(None, [safe(nm)[:3] + b'*']), (rnd.choice([None, 2]), [b'*' + safe(nm)[-2:], b'?' * len(nm)]), (None, [b'no-such-name'])]
                    # wildcards of every shape (several stars in a row, stars next to '?', stars in the middle, near misses)
                    # (the tool's matcher backtracks: saying no costs about len^stars steps, and every wildcard meets every name of the
                    # archive - so the number of stars goes down as the longest name goes up)
                    longest = max(len(x) for x in names)
                    nst = 4 if longest <= 80 else 2 if longest <= 300 else 1
                    variants += [(rnd.choice([None, None, 1, 2]), [listing.glob_from(rnd, rnd.choice(names), stars=nst) for _ in range(rnd.choice([1, 1, 2]))]) for _ in range(2)]
            for quiet, pats in variants:
                n += 1
                mtime = rnd.choice([946684800, NOW - SIXM, NOW - SIXM + 1, NOW, 1])
                jobs.append((n, tag, members, cmd, quiet, pats, mtime, base, exe))
    with ThreadPoolExecutor(max_workers=16) as ex:
        for n, tag, A, arg, pats, rc, so, exp, nsel, tp, ts in ex.map(one, jobs):
            ctx.evaluated(A + arg.encode() + b'|'.join(pats), nontrivial=nsel > 0)
            ctx.count('rows_rendered', nsel)
            ctx.hist('runs_by_command', arg)
            ctx.hist('archives_by_class', tag)
            if tp >= 2 ** 32 or ts >= 2 ** 32:
                ctx.count('skipped_sum_wraps')
                continue
            if rc == -999:
                ctx.count('inconclusive_watchdog')         # the 60 s wall-clock watchdog of the runner: no verdict either way
                continue
            if rc < 0:
                ctx.violation('C19-abnormal-exit', "'lha %s' ended by signal %d" % (arg, -rc), A)
                continue
            if so != exp:
                el, gl = exp.split(b'\n'), so.split(b'\n')
                k = next((i for i, (a, b2) in enumerate(zip(el, gl)) if a != b2), min(len(el), len(gl)))
                where = 'heading' if k < 2 and 'q2' not in arg else 'footer' if k >= len(el) - 2 and 'q2' not in arg else 'row'
                ctx.violation('C19-%s-differs:%s:%s' % (where, arg.rstrip('012'), tag.split('-width')[0]),
                              "'lha %s %s' (%s): line %d is %r, reference rendering %r" % (arg, b' '.join(pats), tag, k,
                                                                                          gl[k][:110] if k < len(gl) else None, el[k][:110] if k < len(el) else None), A)
    ctx.cov['exhaustive'] = True
    ctx.cov['exhaustive_subspace'] = 'all 2^9 Unix permission words x {file, directory, link}; all 2^8 OS-9 permission bytes; every known OS type'
    ctx.cov['rule'] = ('archives of generated headers (header.py) listed by the real tool with l, lv, v, vv, quiet levels and wildcard lists; '
                       'expected output = listing.render(normalise(fields)); distinct by archive+command+patterns; non-trivial = at least one selected row')
    ctx.sample({'class': jobs[0][1], 'command': jobs[0][3], 'rows': len(jobs[0][2])})
    ctx.sample({'class': jobs[-1][1], 'command': jobs[-1][3], 'patterns': [p.decode('latin1') for p in jobs[-1][5]]})
    ctx.assumptions += ['generated totals stay below 2^32 (the statement is silent on wrap-around of the sums)',
                        'the renderer is validated against 708 recorded listings of the real Unix LHA tool']
    shutil.rmtree(base, ignore_errors=True)


def replay(ctx, path):
    run(ctx)
