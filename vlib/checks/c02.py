"""C02 - -lh1-: decode(LZHUF_encode(commands)) == expand(commands); the adaptive trees of the
reference encoder and of lhasa's decoder must stay in lock-step through every increment,
exchange and rebuild, or all later output is garbage - output equality over long streams is the observer."""
import random
from .. import build, core, dech
from ..lhamodel import lzhuf
from ..lhamodel.lz import expand

LEVEL = 'exploration'
_EXE = None
SOURCES = ['uniform314', 'uniform256', 'zipf', 'two', 'one', 'roundrobin', 'bursts', 'copies-heavy', 'ramp', 'fibonacci', 'staircase']


def gen_fibonacci(rnd, nsym):
    """Frequencies growing like a Fibonacci sequence make the adaptive tree as skewed as the 0x8000 frequency total allows:
    codes of 17 and 18 bits (the model's arithmetic has no 16-bit limit; nor may the decoder's).  Then every symbol is used
    while the tree is that deep, and the stream goes on through rebuilds."""
    cmds = []
    ratio = rnd.choice([1.62, 1.66, 1.7])
    s = rnd.choice([180.0, 200.0, 230.0])
    syms = rnd.sample(range(256), 14)
    emitted = 0
    for i in range(14):
        for _ in range(int(s)):
            if emitted >= 32400:
                break
            cmds.append(('L', syms[i]))
            emitted += 1
        s *= ratio
    deep = [('L', v) for v in range(256) if v not in syms] + [('C', rnd.randrange(1, 4097), n) for n in range(3, 61)]
    rnd.shuffle(deep)
    cmds += deep[:150]
    while len(cmds) < nsym:
        cmds.append(('L', rnd.randrange(256)) if rnd.random() < 0.8 else ('C', rnd.randrange(1, 4097), rnd.randrange(3, 61)))
    return cmds


def gen_staircase(rnd, nsym):
    """Symbol number s is used about s times, all interleaved: the nodes of the tree then hold as many *different* frequency values
    at once as a tree of 627 nodes can (400 and more; ordinary data stays below 300).  Variants stop before the first rebuild
    or run through it; with and without the copy-length symbols."""
    nsyms = rnd.choice([245, 256, 300, 314])
    order = list(range(nsyms))
    rnd.shuffle(order)
    step = rnd.choice([1, 1, 2])
    left = {s: 1 + rank * step for rank, s in enumerate(order)}
    cmds = []
    live = list(order)
    while live and len(cmds) < nsym:
        nxt = []
        for s in live:
            cmds.append(('L', s) if s < 256 else ('C', rnd.randrange(1, 4097), s - 253))
            left[s] -= 1
            if left[s] > 0:
                nxt.append(s)
        live = nxt
    while len(cmds) < nsym // 4:
        cmds.append(('L', rnd.randrange(256)))
    return cmds


def gen(rnd, source, nsym):
    if source == 'fibonacci':
        return gen_fibonacci(rnd, max(nsym, 36000))
    if source == 'staircase':
        return gen_staircase(rnd, nsym)
    cmds = []
    outlen = 0
    cp = {'copies-heavy': 0.8, 'one': 0.0, 'two': 0.05}.get(source, rnd.choice([0.0, 0.1, 0.3]))
    a, b2 = rnd.randrange(256), rnd.randrange(256)
    burst_sym, burst_left = 0, 0
    for i in range(nsym):
        if source == 'uniform314':
            s = rnd.randrange(314)
            if s >= 256:
                n = s - 253
                d = rnd.choice([1, 2, 4096, rnd.randrange(1, 4097), min(4096, outlen + rnd.randrange(1, 30))])
                cmds.append(('C', d, n))
                outlen += n
                continue
            cmds.append(('L', s))
            outlen += 1
            continue
        if rnd.random() < cp:
            n = rnd.choice([3, 60, rnd.randrange(3, 61)])
            r = rnd.random()
            d = 1 if r < 0.15 else 4096 if r < 0.3 else min(4096, outlen + rnd.randrange(1, 30)) if r < 0.4 else \
                rnd.randrange(1, 65) if r < 0.6 else rnd.randrange(1, 4097)
            cmds.append(('C', d, n))
            outlen += n
            continue
        if source == 'uniform256':
            v = rnd.randrange(256)
        elif source == 'zipf':
            v = int(rnd.paretovariate(1.2)) % 256
        elif source == 'two':
            v = a if rnd.random() < 0.5 else b2
        elif source == 'one':
            v = a
        elif source == 'roundrobin':
            v = i % 256
        elif source == 'ramp':
            v = (i // 97) % 256
        elif source == 'bursts':
            if burst_left == 0:
                burst_sym = rnd.randrange(256)
                burst_left = rnd.choice([1, 2, 50, 700])
            burst_left -= 1
            v = burst_sym
        else:
            v = rnd.randrange(256)
        cmds.append(('L', v))
        outlen += 1
    return cmds


def shard(seed, specs):
    sh = core.Shard()
    rnd = random.Random(seed)
    cases, expect, stats = [], [], []
    for source, nsym in specs:
        if source == 'every-distance-and-length':
            # each of the 4096 distances and each of the 58 copy lengths at least once, in one stream
            cmds = [('L', (i * 29) & 0xff) for i in range(200)] + [('C', 200, 60)] * 70
            cmds += [('C', d, 3 + (d % 58)) for d in range(1, 4097)] + [('C', 1 + (n * 71) % 4096, n) for n in range(3, 61)]
            nsym = len(cmds)
        else:
            cmds = gen(rnd, source, nsym)
        stream, st = lzhuf.encode(cmds, pad_bit=rnd.randrange(2))
        exp = expand(cmds)
        st['source'] = source
        st['symbols'] = nsym
        cases.append(dech.Case('-lh1-', stream, len(exp), sched=[rnd.choice([1, 60, 4096, 100000])] if nsym < 3000 else [], in_chunk=rnd.choice([0, 0, 0, 1, 3, 7]),
                               meta=st))
        expect.append(exp)

    def on_crash(case, cls, key, err):
        sh.violation('C02-crash:' + key, 'decoding an LZHUF-encoded stream (%s) ended in %s: %s' % (case.meta, cls, err[-1200:]), case.stream)
    res = dech.run_batch(_EXE, cases, sh, label='c02', on_crash=on_crash)
    for c, exp in zip(cases, expect):
        st = c.meta
        sh.evaluated(c.stream, nontrivial=st['reconsts'] > 0 or st['tie_exchanges'] > 0)
        sh.count('symbols', st['symbols'])
        sh.count('tree_rebuilds', st['reconsts'])
        sh.count('tie_exchanges', st['tie_exchanges'])
        sh.count('exchanges', st['exchanges'])
        sh.cov['max_code_bits'] = max(sh.cov.get('max_code_bits', 0), st['max_code_bits'])
        sh.cov['max_distinct_node_frequencies'] = max(sh.cov.get('max_distinct_node_frequencies', 0), st['max_distinct_freqs'])
        sh.count('output_bytes', len(exp))
        sh.hist('streams_by_source', st['source'])
        sh.hist('streams_by_rebuilds', min(st['reconsts'], 10))
        sh.cov['max_rebuilds_in_one_stream'] = max(sh.cov.get('max_rebuilds_in_one_stream', 0), st['reconsts'])
        r = res.get(c.id)
        if r is None:
            continue
        if r.out != exp:
            k = next((i for i in range(min(len(exp), len(r.out))) if exp[i] != r.out[i]), min(len(exp), len(r.out)))
            sh.violation('C02-mismatch:%s:%s' % (st['source'], 'after-rebuild' if st['reconsts'] else 'no-rebuild'),
                         '-lh1- stream (%s): decoded %d bytes, expected %d, first difference at output byte %d' % (st, len(r.out), len(exp), k),
                         c.stream)
        if st['symbols'] <= 12:
            sh.sample({'source': st['source'], 'stream_hex': c.stream.hex(), 'expected_hex': exp.hex()})
    return sh


def run(ctx):
    global _EXE
    b = build.Builder()
    _EXE = b.harness('asan', 'decode', ['h_decode.c'])
    rnd = random.Random(ctx.seed)
    args = []
    if ctx.tier == 'quick':
        per, long_streams = 70000, [('uniform256', 300000), ('roundrobin', 300000)]
        nshort = 280
    else:
        per, long_streams = 60000, [(s, 1200000) for s in ('uniform256', 'roundrobin', 'zipf', 'uniform314', 'bursts', 'two', 'copies-heavy', 'one')]
        nshort = 6000
    specs = [(SOURCES[i % len(SOURCES)], rnd.choice([per, per // 2, per + 777])) for i in range(nshort)]
    # tiny directed streams: every literal and every copy length as the very first symbol (code of the initial tree)
    tiny = [('uniform314', n) for n in (1, 2, 3, 12, 313, 314, 700)] * 2 + [('every-distance-and-length', 0)]
    chunks = [specs[i::14] for i in range(14)]
    for i, ch in enumerate(chunks):
        args.append((ctx.seed * 1009 + i, ch + (tiny if i == 0 else [])))
    for i, ls in enumerate(long_streams):
        args.append((ctx.seed * 2003 + i, [ls]))
    core.run_shards(ctx, shard, args)
    if ctx.cov.get('max_code_bits', 0) < 17:
        raise core.HarnessFailure('workload never produced a code longer than 16 bits (max %s)' % ctx.cov.get('max_code_bits'))
    if ctx.cov.get('max_distinct_node_frequencies', 0) < 330:
        raise core.HarnessFailure('workload never made the tree hold more than %s different frequencies at once' % ctx.cov.get('max_distinct_node_frequencies'))
    if ctx.cov.get('tree_rebuilds', 0) < 2 or ctx.cov.get('tie_exchanges', 0) < 100:
        raise core.HarnessFailure('workload produced too few rebuilds / tie exchanges to say anything')
    ctx.cov['rule'] = ('streams = LZHUF reference encoder (vlib/lhamodel/lzhuf.py) applied to generated command lists from %d symbol '
                       'sources; distinct by stream bytes; non-trivial = the reference encoder performed at least one tree rebuild or '
                       'one exchange across a group of >= 2 equal-frequency nodes while encoding it' % len(SOURCES))
    ctx.assumptions.append('lock-step is observed through output equality only (no hook into the decoder tree)')


def replay(ctx, path):
    run(ctx)
