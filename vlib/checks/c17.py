"""C17 - lha_crc16_buf is CRC-16/ARC for every buffer and every split.
Oracle: bitwise definition (reflected 0xA001, init 0, no xorout) in the harness and, for the
check value and a sample, again in Python.  Exhaustive over (state, byte); thorough also over
(state, two bytes) = 2^32 cases."""
import subprocess, re
from concurrent.futures import ThreadPoolExecutor
from .. import build, core
from ..lhamodel.crc16 import crc16

LEVEL = 'exploration'


class _Hung:
    returncode, stdout, stderr = -999, '', ''


def _run(exe, args):
    # every job is bounded work (the largest, 'huge', is about two minutes); a generous wall-clock watchdog turns a routine
    # that does not return into a verdict: re-run once, then reported
    for attempt in (0, 1):
        try:
            return subprocess.run([exe] + [str(a) for a in args], capture_output=True, text=True, env=build.san_env(), timeout=1500 if args[0] == 'huge' else 300 if args[0] == 'zeros' else 900)
        except subprocess.TimeoutExpired:
            continue
    return _Hung()


def run(ctx):
    b = build.Builder()
    exe_asan = b.harness('asan', 'crc', ['h_crc.c'])
    exe_fast = b.harness('plain', 'crc', ['h_crc.c'])
    if crc16(b'123456789') != 0xBB3D:
        raise core.HarnessFailure('python reference CRC self-check failed')
    jobs = []
    W = 16
    step = 65536 // W
    for i in range(W):
        jobs.append((exe_fast, ['pairs', i * step, (i + 1) * step]))
    if ctx.tier == 'thorough':
        for i in range(64):
            jobs.append((exe_fast, ['pairs2', i * 1024, (i + 1) * 1024]))
        nrand, nproc = 250000, 16
    else:
        # a 2^24 slice of the two-byte space (states 0..255 x all 2-byte inputs) also in quick
        for i in range(16):
            jobs.append((exe_fast, ['pairs2', i * 16, (i + 1) * 16]))
        nrand, nproc = 12500, 16
    for i in range(nproc):
        jobs.append((exe_asan, ['random', ctx.seed * 1000 + i, nrand]))
    # coincidences between the running state and the data (what word-at-a-time or table-merging variants special-case)
    for i in range(16):
        jobs.append((exe_fast, ['echo', i * 4096, (i + 1) * 4096]))
    # fresh processes whose very first call is empty / 1 / 2 / 3 bytes (and a few other sizes): whatever the routine sets up on first
    # use must not depend on what that first call looked like
    for k0 in (0, 1, 2, 3, 4, 7, 8, 15, 16, 17, 63):
        jobs.append((exe_asan, ['first', k0, ctx.seed * 61 + k0]))
    # the accumulator inside the buffer (nothing forbids it: the two parameters are not restrict-qualified)
    jobs.append((exe_asan, ['alias', ctx.seed * 67, 20000]))
    # long buffers (the length itself is an input of the routine: 2^k boundaries, multiples of 65536, pieces > 65535)
    for i in range(4 if ctx.tier == 'quick' else 16):
        jobs.append((exe_fast, ['long', ctx.seed * 77 + i, 22 if ctx.tier == 'quick' else 26]))
    jobs.append((exe_asan, ['long', ctx.seed * 79, 18]))
    # enormous lengths are cheap over untouched (all-zero) memory with an analytic reference: the sign bit and the width of int
    zl = [1 << 31, 1 << 32] if ctx.tier == 'quick' else [1 << 31, (1 << 31) + 5, (1 << 32) - 1, 1 << 32, (1 << 32) + 17, 3 << 30, 1 << 33, (1 << 16), (1 << 24) + 1]
    for k, n_ in enumerate(zl + [0, 1, 65535, 65536]):
        jobs.append((exe_fast, ['zeros', ctx.seed * 97 + k, n_] + (['whole-only'] if ctx.tier == 'quick' and n_ >= (1 << 30) else [])))
    if ctx.tier == 'thorough':
        jobs.append((exe_fast, ['huge', ctx.seed * 83, (1 << 32) + 17]))
        jobs.append((exe_fast, ['huge', ctx.seed * 89, (1 << 32)]))
    with ThreadPoolExecutor(max_workers=16) as ex:
        results = list(ex.map(lambda j: (j, _run(*j)), jobs))
    tot = {'pairs': 0, 'pairs2': 0, 'random': 0, 'long': 0, 'huge': 0, 'echo': 0, 'zeros': 0, 'first': 0, 'alias': 0}
    splits = 0
    for (exe, args), r in results:
        if r.returncode == -999:
            ctx.violation('no-return:' + args[0], 'lha_crc16_buf did not return: h_crc %s exceeded the watchdog twice (a single call on a buffer of %s bytes)'
                          % (' '.join(map(str, args)), args[2] if args[0] in ('huge', 'zeros') else 'up to 2^26'), replay='h_crc ' + ' '.join(map(str, args)) + '\n', ext='txt')
            continue
        if r.returncode != 0:
            if 'ERROR: AddressSanitizer' in r.stderr or 'runtime error' in r.stderr:
                ctx.violation('sanitizer:' + args[0], 'sanitizer report in lha_crc16_buf driver: ' + r.stderr[:1500],
                              replay=' '.join(map(str, args)) + '\n' + r.stderr, ext='txt')
                continue
            raise core.HarnessFailure('h_crc %s failed rc=%d %s' % (args, r.returncode, r.stderr[-500:]))
        m = re.search(r'SUMMARY mode=(\w+) cases=(\d+) splits=(\d+) mismatches=(\d+)', r.stdout)
        if not m:
            raise core.HarnessFailure('h_crc printed no summary')
        tot[m.group(1)] += int(m.group(2))
        splits += int(m.group(3))
        for line in r.stdout.splitlines():
            if line.startswith('MISMATCH'):
                mm = re.search(r'kind=(\S+) init=(\w+) len=(\d+) split=(\d+) got=(\w+) want=(\w+) data=(\w*)', line)
                kind = mm.group(1)
                # re-derive the expectation independently in Python before believing the C reference
                data = bytes.fromhex(mm.group(7))
                if int(mm.group(3)) == len(data) and crc16(data, int(mm.group(2), 16)) != int(mm.group(6), 16):
                    raise core.HarnessFailure('C and Python CRC references disagree: ' + line)
                ctx.violation('mismatch:' + kind, line, replay=line + '\nreplay: h_crc ' + ' '.join(map(str, args)) + '\n', ext='txt')
    expect_pairs = 1 << 24
    if tot['pairs'] != expect_pairs:
        raise core.HarnessFailure('pairs enumerated %d != 2^24' % tot['pairs'])
    # check value through the library itself, via a one-off random-mode equivalent: done in harness 'random'
    ctx.cov['evaluations'] = tot['pairs'] + tot['pairs2'] + tot['random'] + tot['long'] + tot['huge'] + tot['echo'] + tot['zeros'] + tot['first'] + tot['alias']
    ctx.cov['distinct_nontrivial'] = tot['pairs'] + tot['pairs2']   # enumerated spaces: all distinct by construction
    ctx.cov['exhaustive'] = True
    ctx.cov['rule'] = ('all 2^16 states x 2^8 bytes enumerated (distinct by construction, every one non-trivial: a table '
                       'lookup is exercised); two-byte inputs: %s; random buffers (len 0..4096, misalignment 0..7, initial '
                       'state 0 or random) compared whole / every 2-split (len<=40) / random k-split incl. empty pieces; '
                       'the accumulator lying inside the buffer; fresh processes whose first call has 0..3 (and other) bytes; all-zero buffers of 2^31 and 2^32 bytes (thorough: to 2^33) against an analytic reference; empty pieces as (NULL,0) and (pointer,0) from every state and inside random splits; state-echo buffers (all 2^16 states x prefix 0..7 x data making state^data one of 7 special words x 00/FF fill); long buffers up to 2^%d bytes in one call%s; distinct_nontrivial counts only the enumerated (state,input) pairs'
                       % ('all 2^32 (state, 2 bytes)' if ctx.tier == 'thorough' else 'states 0..255 x 2^16',
                          22 if ctx.tier == 'quick' else 26, ' and two of 2^32(+17) bytes' if ctx.tier == 'thorough' else ''))
    ctx.cov['state_byte_pairs'] = tot['pairs']
    ctx.cov['state_two_byte_cases'] = tot['pairs2']
    ctx.cov['random_buffers'] = tot['random']
    ctx.cov['long_buffers'] = tot['long']
    ctx.cov['zero_buffers_up_to_bytes'] = max(zl)
    ctx.cov['zero_buffer_cases'] = tot['zeros']
    ctx.cov['state_echo_cases'] = tot['echo']
    ctx.cov['long_buffer_lengths'] = ('2^k-1, 2^k, 2^k+1 for k=8..%d; 2..9 x 65536 (+random tail); 24 random in [65536, 2^21); 24 random in '
                                      '[256, 70256); each whole, 2-split and k-split with pieces that may exceed 65535' % (22 if ctx.tier == 'quick' else 26))
    ctx.cov['huge_buffers'] = tot['huge']
    if ctx.tier == 'thorough':
        ctx.cov['huge_buffer_lengths'] = [(1 << 32) + 17, 1 << 32]
    ctx.cov['split_evaluations'] = splits
    ctx.cov['exhaustive_two_byte'] = ctx.tier == 'thorough'
    ctx.cov['samples'] = [{'state': '0x0000', 'input': '313233343536373839', 'crc': '0xbb3d'},
                          {'mode': 'pairs', 'range': [0, 65536]},
                          {'mode': 'random', 'seed': ctx.seed * 1000, 'n': nrand}]
    ctx.assumptions += ['bitwise reference in harness/h_crc.c cross-checked against vlib/lhamodel/crc16.py on the check value and on every reported mismatch']


def replay(ctx, path):
    run(ctx)
