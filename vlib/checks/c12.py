"""C12 - headers failing their own checksum / CRC / length rules are never returned, and iteration ends there.
Oracle: harness/ref_hdrrules.c, an independent statement of exactly the listed rules (one-directional).
Workload: for a base set of generated well-formed headers, all 255 substitutions at every header byte, every
truncation length, and +-1/+-2/0/max perturbations of every length field; each followed by a valid second member."""
import os, random, struct, subprocess, re
from concurrent.futures import ThreadPoolExecutor
from .. import build, core, dech
from ..lhamodel import header as H
from . import c05

LEVEL = 'exploration'
RULES = {1: 'level>3', 2: 'L0/L1 length below minimum', 3: 'L0/L1 checksum', 4: 'name length overruns header', 5: 'L2 length<26',
         6: 'L3 length<32', 7: 'ext size too small', 8: 'ext size exceeds remainder/packed size', 9: 'input ends before header end',
         10: 'common CRC', 11: 'file without name', 12: 'directory without path'}


def presence_bases():
    """The name / path presence rules over their whole matrix: level x OS type x method x recorded size x name present x path
    present x permission kind.  Most of these are NOT well-formed; they are judged as given (and mutated like the others)."""
    from ..lhamodel.crc16 import crc16
    out = []
    for lvl in (1, 2, 3, 0):
        for os_t in (b'U', b'A', b'M', b'K', b'\0', b'm'):
            for method in (b'-lh0-', b'-lhd-', b'-lh5-', b'-lz4-'):
                for size in (0, 1):
                    for has_name in (0, 1):
                        for has_path in (0, 1):
                            for perms in (None, 0o40755, 0o120777, 0o100644):
                                if lvl == 0 and (os_t != b'U' or perms not in (None, 0o40755)):
                                    continue
                                if perms == 0o100644 and os_t not in (b'U', b'A'):
                                    continue
                                data = b'x' * size if method in (b'-lh0-', b'-lz4-') else b''
                                m = dict(level=lvl, method=method, size=size, crc=crc16(data), data=data, os=os_t[0])
                                if lvl in (0, 1):
                                    m['dostime'] = H.unix_to_dos(1000000000)
                                    m['name'] = (b'p/' if has_path else b'') + (b'n' if has_name else b'') if lvl == 0 else (b'n' if has_name else b'')
                                    if lvl == 1:
                                        m['exts'] = ([(2, b'p\xff')] if has_path else []) + ([(0x50, H.u16(perms))] if perms is not None else [])
                                    elif perms is not None:
                                        m['area'] = b'U\0' + H.u32(1000000000) + H.u16(perms) + H.u16(0) + H.u16(0)
                                else:
                                    m['time'] = 1000000000
                                    m['exts'] = ([(1, b'n')] if has_name else []) + ([(2, b'p\xff')] if has_path else []) + \
                                                ([(0x50, H.u16(perms))] if perms is not None else [])
                                out.append(m)
    return out


def bases(rnd, n):
    out = []
    # directed: one of each level with and without a common-CRC header, a directory, a symlink
    for lvl in (0, 1, 2, 3):
        out.append(H.simple_member(b'file.txt', b'data', level=lvl, path=b'dir/', perms=0o100644, uidgid=(1, 2)))
        out.append(H.dir_member(b'dir/', level=lvl, perms=0o40755))
        out.append(H.symlink_member(b'dir/l', b'target', level=lvl))
        if lvl:
            out.append(H.simple_member(b'c.bin', b'12345', level=lvl, extra_exts=[(0, b'\0\0')]))
            out.append(H.simple_member(b'k.bin', b'12345', level=lvl, os_type=ord('K'), extra_exts=[(0, b'\0\0'), (0x41, bytes(24))]))
    while len(out) < n:
        m = c05.gen(rnd)
        if H.normalise(m) is None:
            continue
        if rnd.random() < 0.4 and m['level'] >= 1 and not any(t == 0 for t, _ in m['exts']):
            m['exts'].insert(rnd.randrange(len(m['exts']) + 1), (0, b'\0\0' + bytes(rnd.randrange(3))))
        out.append(m)
    return out[:n]


def length_perturbations(m, hdr, arc):
    """Explicit mutants: every length field set to v-2,v-1,v+1,v+2,0,max."""
    lvl = m['level']
    fields = []          # (offset, width)
    if lvl in (0, 1):
        fields += [(0, 1), (21, 1)]
    elif lvl == 2:
        fields += [(0, 2)]
    else:
        fields += [(24, 4)]
    if lvl >= 1:
        fs = 4 if lvl == 3 else 2
        off = {1: len(hdr) - H.ext_chain(m.get('exts', []), 2)[2] - 2 + 2 - 2, 2: 24, 3: 28}[lvl]
        if lvl == 1:
            base_len = 2 + hdr[0]
            off = base_len - 2
        for t, d in m.get('exts', []) + [(None, None)]:
            fields.append((off, fs))
            if t is None:
                break
            off += 1 + len(d) + fs
        if lvl == 1:
            fields.append((7, 4))        # packed size field (covers the extended headers)
    out = []
    for off, w in fields:
        v = int.from_bytes(hdr[off:off + w], 'little')
        for nv in {v - 2, v - 1, v + 1, v + 2, 0, (1 << (8 * w)) - 1, (1 << (8 * w - 1))}:
            if nv < 0 or nv >= (1 << (8 * w)) or nv == v:
                continue
            b = bytearray(arc)
            b[off:off + w] = nv.to_bytes(w, 'little')
            if lvl in (0, 1) and off != 0:
                pass
            out.append(bytes(b))
            if lvl in (0, 1):
                # same perturbation with the checksum repaired, so that the length rule itself is what fails
                hl = b[0]
                if 2 + hl <= len(b):
                    b2 = bytearray(b)
                    b2[1] = sum(b2[2:2 + hl]) & 0xff
                    out.append(bytes(b2))
    return out


def run(ctx):
    b = build.Builder()
    exe = b.harness('asan', 'hdrenum', ['h_hdrenum.c', 'ref_hdrrules.c'])
    rnd = random.Random(ctx.seed)
    nb = 240 if ctx.tier == 'quick' else 6000
    bs = bases(rnd, nb)
    second = H.build(H.simple_member(b'second-member', b'NEXT', level=2))
    scratch = os.path.join(build.scratch_root(), 'c12')
    os.makedirs(scratch, exist_ok=True)
    nsh = 16
    files = [open(os.path.join(scratch, 'b%d.bin' % i), 'wb') for i in range(nsh)]
    nbase = nperturb = 0
    samples = []
    for i, m in enumerate(bs):
        hdr, _ = H.build_header(m)
        arc = hdr + m['data'] + second + b'\0'
        f = files[i % nsh]
        f.write(struct.pack('<II', len(hdr), len(arc)) + arc)
        nbase += 1
        for mut in length_perturbations(m, hdr, arc):
            f.write(struct.pack('<II', 0, len(mut)) + mut)
            nperturb += 1
        if len(samples) < 3:
            samples.append({'level': m['level'], 'header_hex': hdr.hex(), 'mutations': 'all 255 substitutions at each of %d bytes; every truncation of %d bytes' % (len(hdr), len(arc))})
        ctx.hist('bases_by_level', m['level'])
        if m['level'] and any(t == 0 for t, _ in m.get('exts', [])):
            ctx.hist('bases_with_common_crc', m['level'])
    # the name / path presence matrix: judged as given (hlen 0 = no substitutions), every 9th one also fully mutated
    pb = presence_bases()
    for i, m in enumerate(pb):
        hdr, _ = H.build_header(m)
        arc = hdr + m['data'] + second + b'\0'
        files[i % nsh].write(struct.pack('<II', len(hdr) if i % 9 == 0 else 0, len(arc)) + arc)
    ctx.cov['name_path_presence_matrix_headers'] = len(pb)
    for f in files:
        f.close()

    def one(i):
        return subprocess.run([exe, 'c12', os.path.join(scratch, 'b%d.bin' % i)], capture_output=True, text=True, env=build.san_env())
    tot = {}
    rules = {}
    with ThreadPoolExecutor(max_workers=16) as ex:
        for r in ex.map(one, range(nsh)):
            if r.returncode != 0:
                cls, key, is_lhasa = dech.classify_crash(r.stderr, r.returncode)
                m = re.search(r'CURRENT archive=([0-9a-f]*)', r.stderr)
                if not is_lhasa:
                    raise core.HarnessFailure('h_hdrenum failed: %s' % r.stderr[-800:])
                ctx.violation('C12-crash:' + key, 'parsing a mutated header ended in %s: %s' % (cls, r.stderr[:1200]),
                              bytes.fromhex(m.group(1)) if m else r.stderr)
                continue
            m = re.search(r'SUMMARY mode=c12 bases=(\d+) mutants=(\d+) signature_lost=(\d+) must_reject=(\d+) lib_rejected=(\d+) violations=(\d+) not_ended=(\d+) rules=(\S+)', r.stdout)
            if not m:
                raise core.HarnessFailure('no summary: ' + r.stdout[-300:])
            for k, v in zip(('bases', 'mutants', 'sig_lost', 'must_reject', 'lib_rejected', 'viol', 'not_ended'), m.groups()[:7]):
                tot[k] = tot.get(k, 0) + int(v)
            for kv in m.group(8).split(','):
                k, v = kv.split(':')
                rules[int(k)] = rules.get(int(k), 0) + int(v)
            for line in r.stdout.splitlines():
                if line.startswith('WITNESS'):
                    mm = re.match(r'WITNESS C12 kind=(\S+) rule=(\d+) (\S+) archive=([0-9a-f]*)', line)
                    rule = int(mm.group(2))
                    ctx.violation('C12:rule%d:%s:%s' % (rule, mm.group(3), mm.group(1)),
                                  'header violating its own integrity rule "%s" (%s mutant): %s' % (RULES[rule], mm.group(1), mm.group(3)),
                                  bytes.fromhex(mm.group(4)))
    ctx.cov['evaluations'] = tot.get('mutants', 0)
    ctx.cov['distinct_nontrivial'] = tot.get('must_reject', 0)
    ctx.cov['exhaustive'] = True
    ctx.cov['exhaustive_subspace'] = 'all 255 single-byte substitutions at every header byte and every truncation length of the %d base archives' % nbase
    ctx.cov.update(base_headers=nbase, length_field_perturbations=nperturb, mutants_where_signature_was_destroyed=tot.get('sig_lost', 0),
                   mutants_the_rules_condemn=tot.get('must_reject', 0), mutants_library_rejected=tot.get('lib_rejected', 0),
                   condemned_by_rule={RULES[k]: v for k, v in sorted(rules.items())})
    ctx.cov['rule'] = ('mutants of generated well-formed headers (each distinct by construction: one substitution / truncation / field '
                       'perturbation each); distinct_nontrivial = mutants that the independent rules condemn (the ones on which the '
                       'property demands something)')
    ctx.cov['samples'] = samples
    if not ctx.violations and (tot.get('must_reject', 0) < 1000 or any(rules.get(k, 0) == 0 for k in (1, 2, 3, 4, 5, 6, 7, 8, 9, 10))):
        raise core.HarnessFailure('mutation workload did not exercise every rule: %s' % rules)
    ctx.assumptions.append('one-directional: where the listed rules are silent (level-3 word size, 1 MiB ceiling, a level-2 header with no CRC header) nothing is demanded')


def replay(ctx, path):
    run(ctx)
