"""Python side of harness/h_reader.c: op scripts over archives, parsed event logs."""
import os, struct, re
from . import build, core, dech

K_FILE, K_PIPE, K_CBSKIP, K_CBNOSKIP, K_PATH = 0, 1, 2, 3, 4
KIND_NAMES = ['FILE-seekable', 'FILE-pipe', 'callbacks+skip', 'callbacks-noskip', 'path-owned-FILE']
P_PLAIN, P_EOD, P_EOF, P_DEFAULT = 0, 1, 2, 3
OP_NEXT, OP_READ, OP_READALL, OP_CHECK, OP_EXTRACT, OP_EXTRACT_NAMED, OP_STOP, OP_CHECK_NOCB, OP_WALK = range(9)
OPNAMES = ['next', 'read', 'readall', 'check', 'extract', 'extract-named', 'stop', 'check-nocb', 'walk']
F_FULLDATA, F_HDRPATHS, F_SHORTREADS = 1, 2, 4


class RCase:
    __slots__ = ('id', 'archive', 'kind', 'policy', 'flags', 'budget', 'fail_at', 'ops', 'meta')

    def __init__(self, archive, ops, kind=K_CBSKIP, policy=P_DEFAULT, flags=0, budget=0, fail_at=0, meta=None):
        self.id = 0
        self.archive = bytes(archive)
        self.ops = [(o, 0) if isinstance(o, int) else tuple(o) for o in ops]
        if budget == 0:
            # deterministic guard against non-termination (stream-callback invocations); generous: C13 uses its own tight budget
            budget = 400000 + 64 * len(self.archive)
        self.kind, self.policy, self.flags, self.budget, self.fail_at, self.meta = kind, policy, flags, budget, fail_at, meta

    def pack(self):
        return b''.join([struct.pack('<IIIIIQII', 0x43524452, self.id, self.kind, self.policy, self.flags, self.budget,
                                     self.fail_at, len(self.ops)),
                         b''.join(struct.pack('<II', o, a) for o, a in self.ops),
                         struct.pack('<I', len(self.archive)), self.archive])

    def describe(self):
        return '%s policy=%d ops=%s' % (KIND_NAMES[self.kind], self.policy,
                                        ' '.join(OPNAMES[o] + ('(%d)' % a if a else '') for o, a in self.ops[:40]))


def _unhex(v):
    if v == '-':
        return None
    return bytes.fromhex(v[1:])


def parse_header(line):
    """'NEXT fake=.. level=.. path=x.. ...' -> dict or None"""
    if line.startswith('NEXT NULL'):
        return None
    d = {}
    for tok in line.split()[1:]:
        k, _, v = tok.partition('=')
        d[k] = v
    h = dict(fake=int(d['fake']), level=int(d['level']), path=_unhex(d['path']), filename=_unhex(d['filename']),
             symlink=_unhex(d['symlink']), method=_unhex(d['method']), packed=int(d['packed']), size=int(d['size']),
             os=int(d['os']), crc=int(d['crc']), time=int(d['time']), flags=int(d['flags']), perms=int(d['perms']),
             uid=int(d['uid']), gid=int(d['gid']), os9=int(d['os9']), user=_unhex(d['user']), group=_unhex(d['group']),
             ccrc=int(d['ccrc']), win=None if d['win'] == '-' else [int(x) for x in d['win'].split(',')], rawlen=int(d['rawlen']))
    return h


def parse_log(data):
    """-> {case id: [events]}; event = (kind, dict)"""
    res = {}
    cur = None
    for line in data.decode('latin1').split('\n'):
        if not line:
            continue
        if line.startswith('CASE '):
            cur = []
            res[int(line.split()[1])] = cur
            continue
        if cur is None:
            continue
        tag = line.split(' ', 1)[0]
        if tag == 'NEXT':
            try:
                cur.append(('next', parse_header(line)))
            except Exception:
                # the last line of a process that was killed (watchdog, sanitizer abort) may be cut short: that case has no END
                # line and is dropped by the caller anyway
                continue
        elif tag in ('READ', 'READALL'):
            m = re.match(r'\w+ n=(\d+) crc=(\d+) data=((?:[0-9a-f][0-9a-f])*|-)$', line)
            if not m:
                continue
            cur.append((tag.lower(), dict(n=int(m.group(1)), crc=int(m.group(2)),
                                          data=None if m.group(3) == '-' else bytes.fromhex(m.group(3)))))
        else:
            d = {}
            for tok in line.split()[1:]:
                k, _, v = tok.partition('=')
                if _:
                    try:
                        d[k] = int(v)
                    except ValueError:
                        d[k] = v
            cur.append((tag.lower(), d))
    return res


def budget_hit(events):
    return any(e[0] == 'budget' for e in events)


def outcap_hit(events):
    """the case was abandoned by the harness after a check/extract had produced more than the output cap (64 MiB): bounded
    work, too much of it; the log is incomplete and nothing beyond 'proportional so far' may be concluded from it"""
    return any(e[0] == 'outcap' for e in events)


def abandoned(events):
    return any(e[0] in ('budget', 'outcap') for e in events)


def complete(events):
    return bool(events) and events[-1][0] == 'end'


def run_batch(exe, cases, ctx, label='rdr', on_crash=None, timeout=300, env_extra=None, prefix_cmd=(), workdir=None):
    wd = workdir or os.path.join(build.scratch_root(), 'w.%s.%d' % (label, os.getpid()))
    os.makedirs(wd, exist_ok=True)
    os.chmod(wd, 0o777)
    try:
        res = dech.run_marked_batch(exe, cases, ctx, label, on_crash, timeout, parse_log, extra_args=[wd], env_extra=env_extra,
                                    prefix_cmd=prefix_cmd)
    finally:
        if workdir is None:
            import shutil, subprocess
            subprocess.run(['chmod', '-R', 'u+rwx', wd], capture_output=True)
            shutil.rmtree(wd, ignore_errors=True)
    # a case cut short by a crash has no END line: drop it (the crash handler already recorded it)
    return {k: v for k, v in res.items() if complete(v)}
