"""Python side of harness/fsmon.c: run the tool under the LD_PRELOAD monitor, parse and judge the operation log."""
import os, stat, hashlib
from . import build, cli


class Ev:
    __slots__ = ('seq', 'call', 'mutating', 'denied', 'ret', 'errno', 'flags', 'resolved', 'arg', 'arg2')

    def __repr__(self):
        return '%s(%r -> %r%s%s ret=%d)' % (self.call, self.arg, self.resolved, ' DENIED' if self.denied else '',
                                             (' target=%r' % self.arg2) if self.call.startswith('symlink') else '', self.ret)


def parse_log(path):
    out = []
    if not os.path.exists(path):
        return out
    started = False
    for line in open(path, 'rb').read().decode('latin1').split('\n'):
        f = line.split()
        if len(f) < 10:
            continue
        e = Ev()
        e.seq, e.call, e.mutating, e.denied, e.ret, e.errno, e.flags = int(f[0]), f[1], int(f[2]), int(f[3]), int(f[4]), int(f[5]), int(f[6])
        d = dict(x.split('=', 1) for x in f[7:])
        hx = lambda v: None if v == '-' else bytes.fromhex(v)
        e.resolved, e.arg, e.arg2 = hx(d['resolved']), hx(d['arg']), hx(d['arg2'])
        out.append(e)
    # events of the wrapper (setpriv) precede the tool's own: the tool's sequence restarts at 1 after exec
    last1 = max([i for i, e in enumerate(out) if e.seq == 1] or [0])
    return out[last1:]


def is_dangerous_target(t):
    return t.startswith(b'/') or any(c == b'..' for c in t.split(b'/'))


def run_monitored(exe, so, args, root, stdin=b'', as_nobody=True, timeout=60, env=None):
    log = os.path.join(os.path.dirname(root), 'fslog.%s.%d' % (os.path.basename(root), os.getpid()))
    open(log, 'w').close()
    os.chmod(log, 0o666)
    e = {'VERIF_FS_LOG': log, 'VERIF_FS_ROOT': root}
    if env:
        e.update(env)
    rc, so_, se = cli.run_lha(exe, args, root, stdin=stdin, as_nobody=as_nobody, preload=so, env=e, timeout=timeout)
    evs = parse_log(log)
    try:
        os.unlink(log)
    except OSError:
        pass
    return rc, so_, se, evs


def snapshot(top):
    """{relative path: (type, mode, mtime, size, content hash / link target)} without following links"""
    out = {}
    for dp, dn, fn in os.walk(top, followlinks=False):
        for n in dn + fn:
            p = os.path.join(dp, n)
            st = os.lstat(p)
            rel = os.path.relpath(p, top)
            if stat.S_ISLNK(st.st_mode):
                out[rel] = ('link', 0, 0, 0, os.readlink(p))
            elif stat.S_ISDIR(st.st_mode):
                out[rel] = ('dir', stat.S_IMODE(st.st_mode), int(st.st_mtime), 0, '')
            else:
                try:
                    h = hashlib.md5(open(p, 'rb').read()).hexdigest()
                except OSError:
                    h = '?'
                out[rel] = ('file', stat.S_IMODE(st.st_mode), int(st.st_mtime), st.st_size, h)
    st = os.lstat(top)
    out['.'] = ('dir', stat.S_IMODE(st.st_mode), int(st.st_mtime), 0, '')
    return out
