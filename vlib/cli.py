"""Run the command-line tool built from /repo (TEST_BUILD) under controlled conditions."""
import os, subprocess
from . import build

NOBODY = ['setpriv', '--reuid=65534', '--regid=65534', '--clear-groups']


def run_lha(exe, args, cwd, stdin=b'', as_nobody=False, env=None, preload=None, timeout=60, umask=0o022):
    e = {'PATH': '/usr/bin:/bin', 'TZ': 'UTC', 'LC_ALL': 'C', 'TEST_NOW_TIME': '1335830400'}
    e.update(build.SAN_ENV)
    if env:
        e.update(env)
    if preload:
        e['LD_PRELOAD'] = preload
    cmd = (NOBODY if as_nobody else []) + [exe] + list(args)

    def pre():
        os.umask(umask)
    try:
        r = subprocess.run(cmd, cwd=cwd, input=stdin, capture_output=True, env=e, timeout=timeout, preexec_fn=pre)
        return r.returncode, r.stdout, r.stderr
    except subprocess.TimeoutExpired as ex:
        return -999, ex.stdout or b'', ex.stderr or b''


def mkdir_for_nobody(path):
    os.makedirs(path, exist_ok=True)
    os.chown(path, 65534, 65534)
    os.chmod(path, 0o755)
