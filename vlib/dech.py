"""Python side of harness/h_decode.c: pack cases, run batches with crash attribution (M-san),
parse results."""
import os, struct, subprocess, re, tempfile, hashlib, shutil
from . import build, core

F_DIRECT, F_MONITOR, F_NOSTORE, F_ONEREAD = 1, 2, 4, 8
NOATTACH = 0xffffffff


class Case:
    __slots__ = ('id', 'method', 'declared', 'flags', 'attach_after', 'max_total', 'in_chunk', 'sched', 'stream', 'meta')

    def __init__(self, method, stream, declared, sched=(), flags=0, attach_after=0, max_total=None,
                 in_chunk=0, meta=None):
        self.id = 0
        self.method = method
        self.stream = bytes(stream)
        self.declared = declared
        self.sched = list(sched)
        self.flags = flags
        self.attach_after = attach_after
        self.max_total = (1 << 62) if max_total is None else max_total
        self.in_chunk = in_chunk
        self.meta = meta

    def pack(self):
        m = self.method.encode() if isinstance(self.method, str) else self.method
        return b''.join([
            struct.pack('<II8sQIIQII', 0x43534544, self.id, m[:7], self.declared, self.flags, self.attach_after,
                        self.max_total, self.in_chunk, len(self.sched)),
            struct.pack('<%dI' % len(self.sched), *self.sched),
            struct.pack('<I', len(self.stream)), self.stream])


class Result:
    __slots__ = ('id', 'status', 'total', 'crc_rep', 'len_rep', 'crc_own', 'nreads', 'apiv', 'ncb_total', 'cbs', 'out')


def parse_results(data):
    res = {}
    pos = 0
    n = len(data)
    while pos + 48 <= n:
        r = Result()
        (r.id, r.status, r.total, r.crc_rep, r.len_rep, r.crc_own, r.nreads, r.apiv, r.ncb_total, ncb) = \
            struct.unpack_from('<IIQIQIIIII', data, pos)
        pos += 48
        if pos + 8 * ncb + 8 > n:
            break
        flat = struct.unpack_from('<%dI' % (2 * ncb), data, pos)
        r.cbs = list(zip(flat[0::2], flat[1::2]))
        pos += 8 * ncb
        (nout,) = struct.unpack_from('<Q', data, pos)
        pos += 8
        if pos + nout > n:
            break
        r.out = data[pos:pos + nout]
        pos += nout
        res[r.id] = r
    return res


def classify_crash(stderr, rc):
    """(class, key, is_lhasa) from a sanitizer / hook report.  A report whose faulting frame is
    in /verif/harness code is a bug of the machinery, never a verdict about lhasa."""
    m = re.search(r'VERIF-HOOK-VIOLATION (kind=\S+(?: \S+=\S+)?)', stderr)
    if m:
        return 'hook', 'hook:' + re.sub(r'\s+', ':', m.group(1)), True
    mu = re.search(r'(\S+?):(\d+):(\d+): runtime error: (.*)', stderr)
    m = re.search(r'ERROR: AddressSanitizer: (\S+)', stderr)
    if mu and m and m.group(1) == 'ABRT':
        m = None
    frames = re.findall(r'#\d+ 0x[0-9a-f]+ in (\S+) (\S+?)(?::\d+)+', stderr)
    src_frames = [(fn, path) for fn, path in frames if path.startswith('/') and 'libsanitizer' not in path
                  and not path.startswith('../')]
    repo = [fn for fn, path in src_frames if path.startswith(build.REPO + '/')]
    first_is_harness = bool(src_frames) and src_frames[0][1].startswith(build.HARNESS)
    if m:
        key = 'asan:%s:%s' % (m.group(1), ':'.join(repo[:2]) if repo else 'noframe')
        return 'asan', key, not (first_is_harness and not repo)
    if mu:
        what = re.sub(r'0x[0-9a-f]+', 'ADDR', mu.group(4))
        what = re.sub(r'\d+', 'N', what)[:60]
        key = 'ubsan:%s:%s' % (os.path.basename(mu.group(1)), re.sub(r'[^A-Za-z]+', '_', what))
        return 'ubsan', key, not mu.group(1).startswith(build.HARNESS)
    if rc < 0:
        return 'signal', 'signal:%d' % (-rc), True
    return 'exit', 'exit:%d' % rc, False


def run_batch(exe, cases, ctx, label='dec', on_crash=None, timeout=900, env_extra=None):
    """Runs all cases; returns {id: Result}.  A fatal report is attributed to the marked case,
    recorded through on_crash(case, cls, key, stderr) and the batch restarts after that case."""
    return run_marked_batch(exe, cases, ctx, label, on_crash, timeout, parse_results, binary_out=True, env_extra=env_extra)


def fill_env(byte):
    """environment for the uninitialised-memory differential: stack scribble in the harness + ASan's fill of fresh heap blocks"""
    from . import build
    return {'VERIF_STACK_FILL': str(byte),
            'ASAN_OPTIONS': build.SAN_ENV['ASAN_OPTIONS'] + ':max_malloc_fill_size=268435456:malloc_fill_byte=%d' % byte}


def run_marked_batch(exe, cases, ctx, label, on_crash, timeout, parser, binary_out=True, extra_args=(), env_extra=None,
                     prefix_cmd=()):
    sc = os.path.join(build.scratch_root(), 'b.%s.%d' % (label, os.getpid()))
    os.makedirs(sc, exist_ok=True)
    if prefix_cmd:
        os.chmod(sc, 0o777)          # the harness runs as another user
    for i, c in enumerate(cases):
        c.id = i
    results = {}
    start = 0
    guard = 0
    nhang = 0
    while start < len(cases):
        guard += 1
        cf, of, mf = (os.path.join(sc, x) for x in ('cases', 'out', 'marker'))
        with open(cf, 'wb') as f:
            for c in cases[start:]:
                f.write(c.pack())
        for p in (of, mf):
            if os.path.exists(p):
                os.unlink(p)
        try:
            r = subprocess.run(list(prefix_cmd) + [exe, cf, of, mf] + list(extra_args), capture_output=True,
                               env=build.san_env(env_extra), timeout=timeout)
            rc, err, sout = r.returncode, r.stderr.decode('latin1'), r.stdout.decode('latin1')
        except subprocess.TimeoutExpired as e:
            rc, err, sout = -999, (e.stderr or b'').decode('latin1'), ''
        data = open(of, 'rb').read() if os.path.exists(of) else b''
        got = parser(data)
        results.update(got)
        if rc == 0:
            m = re.search(r'HOOKSTATS trees=(\d+) indexes=(\d+) rows=(\d+)(.*)', sout)
            if m:
                ctx.count('hook_trees_validated', int(m.group(1)))
                ctx.count('hook_indexes_checked', int(m.group(2)))
                ctx.count('hook_rows_checked', int(m.group(3)))
                for name, v in re.findall(r'max\[(\w+)\]=(\d+)', m.group(4)):
                    ctx.cov['hook_max_index_' + name] = max(ctx.cov.get('hook_max_index_' + name, 0), int(v))
            break
        if rc == 2 and 'Sanitizer' not in err and 'runtime error' not in err:
            raise core.HarnessFailure('%s usage/IO failure: %s' % (os.path.basename(exe), err[-400:]))
        try:
            cur = int(open(mf).read().split()[0])
        except Exception:
            raise core.HarnessFailure('%s died without marker rc=%s err=%s' % (os.path.basename(exe), rc, err[-400:]))
        case = cases[cur]
        if rc == -999 or (rc == 3 and 'WATCHDOG' in err):
            cls, key = 'hang', 'hang'
        else:
            cls, key, is_lhasa = classify_crash(err, rc)
            if not is_lhasa:
                raise core.HarnessFailure('harness-side failure (%s) on case %d: %s' % (key, cur, err[:1500]))
        if on_crash:
            on_crash(case, cls, key, err)
        results.pop(cur, None)
        start = cur + 1
        if cls == 'hang':
            nhang += 1
            if nhang >= 4:
                # enough evidence of non-termination in this batch; do not burn hours on the rest
                ctx.count('cases_not_run_after_repeated_hangs', len(cases) - start)
                break
        if guard > 2000:
            raise core.HarnessFailure('too many crashes in one batch')
    shutil.rmtree(sc, ignore_errors=True)
    return results
