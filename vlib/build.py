"""Compile /repo's *current working tree* into instrumented variants.

Nothing from the autotools build is used: every lib/*.c that liblhasa is made of
(lib/Makefile.am SRC, i.e. all lib/*.c except the #include-templates in EXTRA_DIST)
is compiled here with the variant's flags, hooks enabled (-DLHASA_VERIF), into a
scratch directory under /dev/shm which the caller removes on exit.
"""
import os, subprocess, glob, shutil, tempfile, sys, atexit, signal
from concurrent.futures import ThreadPoolExecutor

REPO = os.environ.get('VERIF_REPO', '/repo')
VERIF = os.path.dirname(os.path.dirname(os.path.abspath(__file__)))
HARNESS = os.path.join(VERIF, 'harness')
TEMPLATES = {'bit_stream_reader.c', 'lh_new_decoder.c', 'pma_common.c', 'tree_decode.c'}
GUARD = 'LHASA_VERIF'

UBSAN_SUBSET = ('bounds,bounds-strict,null,object-size,pointer-overflow,alignment,'
                'vla-bound,nonnull-attribute,returns-nonnull-attribute,unreachable,return')

VARIANTS = {
    # verdict build for all in-process harnesses
    'asan': dict(cc='gcc', cflags=['-O1', '-g', '-fno-omit-frame-pointer', '-fsanitize=address',
                                   '-fsanitize=' + UBSAN_SUBSET, '-fno-sanitize-recover=all'],
                 ldflags=['-fsanitize=address', '-fsanitize=' + UBSAN_SUBSET]),
    'tsan': dict(cc='gcc', cflags=['-O1', '-g', '-fsanitize=thread'], ldflags=['-fsanitize=thread']),
    'plain': dict(cc='gcc', cflags=['-O2', '-g'], ldflags=[]),
    'cov': dict(cc='gcc', cflags=['-O0', '-g', '--coverage'], ldflags=['--coverage']),
    'fuzz': dict(cc='clang', cflags=['-O1', '-g', '-fno-omit-frame-pointer', '-fsanitize=fuzzer-no-link,address',
                                     '-fsanitize=bounds,null,pointer-overflow,alignment,vla-bound,unreachable,return',
                                     '-fno-sanitize-recover=all'],
                 ldflags=['-fsanitize=fuzzer,address',
                          '-fsanitize=bounds,null,pointer-overflow,alignment,vla-bound,unreachable,return']),
}

SAN_ENV = {
    'ASAN_OPTIONS': 'abort_on_error=1:detect_leaks=0:allocator_may_return_null=1:handle_abort=1:'
                    'detect_stack_use_after_return=0:max_allocation_size_mb=2048:quarantine_size_mb=64',   # 64 MiB of freed blocks held back per process (default 256): 16+ monitor processes run side by side
    'UBSAN_OPTIONS': 'print_stacktrace=1:halt_on_error=1:abort_on_error=1',
    'TSAN_OPTIONS': 'halt_on_error=0:second_deadlock_stack=1:exitcode=66',
}

_scratch = None


def scratch_root():
    """One scratch directory per process tree, under /dev/shm, removed at exit."""
    global _scratch
    if _scratch is None:
        env = os.environ.get('VERIF_SCRATCH')
        if env and os.path.isdir(env):
            _scratch = env
        else:
            base = '/dev/shm' if os.path.isdir('/dev/shm') and os.access('/dev/shm', os.W_OK) else None
            _scratch = tempfile.mkdtemp(prefix='lhverif.', dir=base)
            os.chmod(_scratch, 0o755)
            os.environ['VERIF_SCRATCH'] = _scratch
            pid = os.getpid()

            def _cleanup():
                if os.getpid() == pid:
                    shutil.rmtree(_scratch, ignore_errors=True)
            atexit.register(_cleanup)

            def _sig(signum, frame):
                _cleanup()
                os._exit(2)
            for s in (signal.SIGTERM, signal.SIGINT, signal.SIGHUP):
                try:
                    signal.signal(s, _sig)
                except Exception:
                    pass
    return _scratch


def lib_sources():
    srcs = sorted(p for p in glob.glob(os.path.join(REPO, 'lib', '*.c'))
                  if os.path.basename(p) not in TEMPLATES)
    if not srcs:
        raise SystemExit('HARNESS: no lib sources found in %s' % REPO)
    return srcs


def cli_sources():
    return sorted(glob.glob(os.path.join(REPO, 'src', '*.c')))


class BuildError(Exception):
    pass


def _run(cmd):
    r = subprocess.run(cmd, capture_output=True, text=True)
    if r.returncode != 0:
        raise BuildError('build failed: %s\n%s' % (' '.join(cmd), r.stderr[-4000:]))


class Builder:
    def __init__(self, hooks=True):
        self.root = os.path.join(scratch_root(), 'build')
        os.makedirs(self.root, exist_ok=True)
        self.hooks = hooks
        self.inc = os.path.join(self.root, 'inc')
        os.makedirs(self.inc, exist_ok=True)
        with open(os.path.join(self.inc, 'config.h'), 'w') as f:
            f.write('#define PACKAGE_NAME "Lhasa"\n#define PACKAGE_VERSION "verif"\n'
                    '#define PACKAGE_STRING "Lhasa verif"\n')
        self._libs = {}

    def _incflags(self):
        return ['-I' + self.inc, '-I' + os.path.join(REPO, 'lib', 'public'),
                '-I' + os.path.join(REPO, 'lib'), '-I' + REPO, '-I' + os.path.join(REPO, 'src'),
                '-I' + HARNESS]

    def _defs(self, extra=()):
        d = list(extra)
        if self.hooks:
            d.append('-D' + GUARD)
        return d

    def _compile_many(self, variant, srcs, outdir, defs):
        v = VARIANTS[variant]
        os.makedirs(outdir, exist_ok=True)
        jobs = []
        for s in srcs:
            o = os.path.join(outdir, os.path.basename(s)[:-2] + '.o')
            jobs.append((o, [v['cc']] + v['cflags'] + self._incflags() + defs + ['-c', s, '-o', o]))
        with ThreadPoolExecutor(max_workers=min(16, len(jobs))) as ex:
            list(ex.map(lambda j: _run(j[1]), jobs))
        return [j[0] for j in jobs]

    def lib(self, variant):
        if variant not in self._libs:
            out = os.path.join(self.root, variant, 'lib')
            self._libs[variant] = self._compile_many(variant, lib_sources(), out, self._defs())
        return self._libs[variant]

    def harness(self, variant, name, srcs, extra_cflags=(), extra_ldflags=(), wrap_alloc=False):
        """Link harness sources (paths relative to /verif/harness) against the lib objects."""
        v = VARIANTS[variant]
        out = os.path.join(self.root, variant, 'h_' + name)
        hs = [s if os.path.isabs(s) else os.path.join(HARNESS, s) for s in srcs]
        hs.append(os.path.join(HARNESS, 'verif_hooks.c'))
        if wrap_alloc:
            hs.append(os.path.join(HARNESS, 'allocmon.c'))
        # harness code itself: same sanitizer, but never the guard-dependent repo defs
        objs = self._compile_many(variant, hs, out + '.objs', list(extra_cflags) + self._defs())
        ld = list(v['ldflags']) + list(extra_ldflags)
        if wrap_alloc:
            ld += ['-Wl,--wrap=malloc,--wrap=calloc,--wrap=realloc,--wrap=free,--wrap=strdup,--wrap=fread,--wrap=fseek,--wrap=ftell']
        _run([v['cc']] + v['cflags'] + objs + self.lib(variant) + ['-o', out] + ld + ['-lpthread'])
        return out

    def cli(self, variant, wrap_alloc=False, name='lha'):
        v = VARIANTS[variant]
        outdir = os.path.join(self.root, variant, 'cli' + ('_w' if wrap_alloc else ''))
        objs = self._compile_many(variant, cli_sources(), outdir, self._defs(['-DTEST_BUILD']))
        hs = [os.path.join(HARNESS, 'verif_hooks.c')]
        if wrap_alloc:
            hs.append(os.path.join(HARNESS, 'allocmon.c'))
        objs += self._compile_many(variant, hs, outdir + '.h', self._defs())
        out = os.path.join(outdir, name)
        ld = list(v['ldflags'])
        if wrap_alloc:
            ld += ['-Wl,--wrap=malloc,--wrap=calloc,--wrap=realloc,--wrap=free,--wrap=strdup,--wrap=fread,--wrap=fseek,--wrap=ftell']
        _run([v['cc']] + v['cflags'] + objs + self.lib(variant) + ['-o', out] + ld)
        return out

    def fuzz_target(self, name, src):
        """libFuzzer binary (clang): lib objects with fuzzer-no-link + ASan + memory-access UBSan subset, hooks on."""
        v = VARIANTS['fuzz']
        out = os.path.join(self.root, 'fuzz', 'fz_' + name)
        hs = [os.path.join(HARNESS, src), os.path.join(HARNESS, 'verif_hooks.c')]
        objs = self._compile_many('fuzz', hs, out + '.objs', self._defs())
        _run([v['cc']] + objs + self.lib('fuzz') + ['-o', out] + list(v['ldflags']))
        return out

    def shared(self, name, src, extra=()):
        """Repo-independent shared object (LD_PRELOAD monitors)."""
        out = os.path.join(self.root, name + '.so')
        s = src if os.path.isabs(src) else os.path.join(HARNESS, src)
        _run(['gcc', '-O2', '-g', '-shared', '-fPIC', s, '-o', out, '-ldl'] + list(extra))
        return out

    def tool(self, name, srcs, extra=()):
        """Repo-independent native helper (reference models in C)."""
        out = os.path.join(self.root, name)
        ss = [s if os.path.isabs(s) else os.path.join(HARNESS, s) for s in srcs]
        _run(['gcc', '-O2', '-g'] + ss + ['-o', out] + list(extra))
        return out


def san_env(extra=None):
    e = dict(os.environ)
    e.update(SAN_ENV)
    if extra:
        e.update(extra)
    return e
