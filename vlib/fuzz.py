"""Coverage-guided extension of the thorough tiers: libFuzzer (clang) targets run with a case-count bound (-runs), several
workers with different seeds; any sanitizer report / hook violation / abort is routed through ctx.violation with the artifact."""
import os, re, subprocess, shutil, glob
from concurrent.futures import ThreadPoolExecutor
from . import build, core, dech


def run_fuzzer(ctx, b, name, src, corpus, runs, workers, key_prefix, max_len=8192):
    exe = b.fuzz_target(name, src)
    base = os.path.join(build.scratch_root(), 'fz_' + name)
    os.makedirs(base, exist_ok=True)

    def one(i):
        d = os.path.join(base, 'w%d' % i)
        cd = os.path.join(d, 'corpus')
        os.makedirs(cd)
        for k, c in enumerate(corpus):
            if (k + i) % 1 == 0:
                open(os.path.join(cd, 's%04d' % k), 'wb').write(c)
        env = build.san_env({'ASAN_OPTIONS': build.SAN_ENV['ASAN_OPTIONS'].replace('abort_on_error=1', 'abort_on_error=0')})
        r = subprocess.run([exe, '-runs=%d' % runs, '-seed=%d' % (ctx.seed * 1000 + i + 1), '-max_len=%d' % max_len, '-timeout=60', '-rss_limit_mb=3000',
                            '-artifact_prefix=' + d + '/', '-print_final_stats=1', '-verbosity=0', cd], capture_output=True, env=env)
        err = r.stderr.decode('latin1')
        arts = sorted(glob.glob(os.path.join(d, 'crash-*')) + glob.glob(os.path.join(d, 'timeout-*')) + glob.glob(os.path.join(d, 'oom-*')))
        art = open(arts[0], 'rb').read() if arts else None
        return i, r.returncode, err, art, [os.path.basename(a) for a in arts]
    tot_exec = 0
    best_cov = 0
    with ThreadPoolExecutor(max_workers=workers) as ex:
        for i, rc, err, art, names in ex.map(one, range(workers)):
            m = re.search(r'stat::number_of_executed_units:\s*(\d+)', err)
            if m:
                tot_exec += int(m.group(1))
            for mm in re.finditer(r'cov: (\d+)', err):
                best_cov = max(best_cov, int(mm.group(1)))
            if rc != 0:
                if names and names[0].startswith(('timeout-', 'oom-')) and 'AddressSanitizer' not in err and 'runtime error' not in err:
                    ctx.count('libfuzzer_%s_timeouts_or_oom' % name)
                    continue
                cls, key, is_lhasa = dech.classify_crash(err, rc if rc < 0 else -6)
                if not is_lhasa and 'LLVMFuzzerTestOneInput' in err and 'abort' in err:
                    is_lhasa = True       # the target's own abort() = a read returned more than asked / more than max_read
                    key = 'api:read-returned-too-much'
                if not err.strip() or (not is_lhasa):
                    raise core.HarnessFailure('libFuzzer target %s failed (rc %d): %s' % (name, rc, err[-800:]))
                ctx.violation('%s:libfuzzer:%s' % (key_prefix, key), 'libFuzzer target %s (worker %d, %s): %s' % (name, i, cls, err[:1500]),
                              art if art is not None else err, ext='bin' if art is not None else 'txt')
    ctx.cov['libfuzzer_%s_executions' % name] = tot_exec
    ctx.cov['libfuzzer_%s_edges_covered' % name] = best_cov
    ctx.cov['evaluations'] += tot_exec
    if tot_exec == 0:
        raise core.HarnessFailure('libFuzzer target %s executed nothing' % name)
    shutil.rmtree(base, ignore_errors=True)
