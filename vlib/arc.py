"""Archive builder shared by the reader-level checks: members of every method with known plain text."""
from . import streams
from .lhamodel import header as H
from .lhamodel.crc16 import crc16

METHOD_BYTES = {m: m.encode() for m in streams.ALL_METHODS}


class Member:
    """A file member with its model: header dict m, compressed bytes, the plain bytes a correct decoder yields."""
    def __init__(self, m, packed, plain, kind='file'):
        self.m, self.packed, self.plain, self.kind = m, packed, plain, kind

    @property
    def name(self):
        n = H.normalise(self.m)
        return ((n['path'] or b'') + (n['filename'] or b'')) if n else None

    def bytes(self):
        return H.build(self.m)


def file_member(rnd, method, name, size=None, level=None, path=b'', **kw):
    """method is one of streams.ALL_METHODS ('-lk7-' is stored as LHARK's level-1 -lh7-)."""
    size = rnd.choice([0, 1, 7, 60, 300]) if size is None else size
    if method in streams.STORED:
        plain = bytes(rnd.randrange(256) for _ in range(size))
        packed = plain
    elif size == 0:
        plain, packed = b'', b''
    else:
        packed, plain, _ = streams.small_plain_stream(rnd, method, size)
    level = rnd.choice([0, 1, 2, 3]) if level is None else level
    os_type = kw.pop('os_type', ord('U'))
    mb = METHOD_BYTES[method]
    if method == '-lk7-':
        level, os_type, mb = 1, 0x20, b'-lh7-'
    m = H.simple_member(name, plain, level=level, method=mb, os_type=os_type, path=path, packed=packed, **kw)
    return Member(m, packed, plain)


def dir_member(path, level=2, **kw):
    return Member(H.dir_member(path, level=level, **kw), b'', b'', kind='dir')


def symlink_member(linkpath, target, level=2, **kw):
    return Member(H.symlink_member(linkpath, target, level=level, **kw), b'', b'', kind='symlink')


def archive(members, trailer=b'\0'):
    return b''.join(x.bytes() for x in members) + trailer


def offsets(members):
    """[(header start, data start, end)] of each member inside archive(members)."""
    out, pos = [], 0
    for x in members:
        hdr = H.build_header(x.m)[0]
        out.append((pos, pos + len(hdr), pos + len(hdr) + len(x.m['data'])))
        pos += len(hdr) + len(x.m['data'])
    return out
