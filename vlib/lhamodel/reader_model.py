"""Sequential reference model of the LHAReader interface, written from its documentation:
  * members are returned in archive order; bytes/verdicts of a member do not depend on other members;
  * a directory that the caller extracted is re-presented ("fake") once: END_OF_DIR - before the first later
    entry whose path does not extend it, or at end of archive; END_OF_FILE - at end of archive; PLAIN - never;
  * a symlink whose target is absolute or contains '..' is replaced by a placeholder when extracted and
    re-presented after everything else, longest path first;
  * after the end every further request reports end.
The model also keeps the tiny filesystem view needed to predict extract results (parents must exist).
Members are arc.Member objects of *valid* archives; names are relative and clean."""
from . import header as H

PLAIN, EOD, EOF_ = 0, 1, 2


def is_dangerous(target):
    if target.startswith(b'/'):
        return True
    return any(c == b'..' for c in target.split(b'/'))


class ReaderModel:
    def __init__(self, members, policy=EOD, hdrpaths=True):
        self.members = members
        self.norm = [H.normalise(x.m) for x in members]
        self.policy = PLAIN if policy == PLAIN else (EOF_ if policy == EOF_ else EOD)
        self.i = -1                 # index of the pending/current real entry
        self.state = 'start'        # start normal fake deferred eof
        self.cur = None             # ('real', idx) | ('fake', idx) | ('deferred', idx)
        self.stack = []             # directory indices, top at end
        self.deferred = []          # symlink indices, in presentation order
        self.pos = 0                # bytes of the current member already read
        self.decoded = False
        self.extracted = False
        self.dirs = set([b''])      # existing directories ('' = cwd), as path strings ending in '/' (or '')
        self.files = set()
        self.hdrpaths = hdrpaths

    def full(self, idx):
        n = self.norm[idx]
        return (n['path'] or b'') + (n['filename'] or b'')

    def _parent_ok(self, path):
        p = path.rstrip(b'/')
        k = p.rfind(b'/')
        return (p[:k + 1] if k >= 0 else b'') in self.dirs

    def _top_ended(self):
        if not self.stack:
            return False
        if self.i >= len(self.members):
            return True
        if self.policy == EOF_:
            return False
        top = self.norm[self.stack[-1]]['path']
        ip = self.norm[self.i]['path']
        return ip is None or not ip.startswith(top)

    def next(self):
        if self.state == 'eof':
            return ('next', None, 0)
        if self.state in ('start', 'normal'):
            self.i += 1
        self.pos, self.decoded, self.extracted = 0, False, False
        if self._top_ended():
            idx = self.stack.pop()
            self.state, self.cur = 'fake', ('fake', idx)
            return ('next', idx, 1)
        if self.i < len(self.members):
            self.state, self.cur = 'normal', ('real', self.i)
            return ('next', self.i, 0)
        if self.deferred:
            idx = self.deferred.pop(0)
            self.state, self.cur = 'deferred', ('deferred', idx)
            return ('next', idx, 1)
        self.state, self.cur = 'eof', None
        return ('next', None, 0)

    def _is_file(self):
        return self.state == 'normal' and self.members[self.cur[1]].kind == 'file'

    def read(self, k):
        if not self._is_file():
            return ('read', b'')
        x = self.members[self.cur[1]]
        out = x.plain[self.pos:self.pos + k]
        self.pos += len(out)
        self.decoded = True
        return ('read', out)

    def readall(self):
        return ('readall', self.read(1 << 62)[1])

    def check(self):
        if self.state != 'normal':
            return ('check', 0)
        x = self.members[self.cur[1]]
        self.decoded = True
        return ('check', 1)           # valid members and directories/symlinks check good

    def extract(self, name=None):
        """name: explicit file name (bytes, relative, in cwd) or None for the header path."""
        if self.state in ('start', 'eof'):
            return ('extract', 0)
        kind, idx = self.cur
        x = self.members[idx]
        n = self.norm[idx]
        path = name if name is not None else (n['path'] if x.kind == 'dir' else self.full(idx))
        self.extracted = True
        if kind == 'fake':
            return ('extract', 1)
        if kind == 'deferred':
            ok = self._parent_ok(path)
            if ok:
                self.files.add(path)
            return ('extract', 1 if ok else 0)
        if x.kind == 'file':
            self.decoded = True
            if not self._parent_ok(path) or (path.rstrip(b'/') + b'/') in self.dirs:
                return ('extract', 0)
            self.files.add(path)
            return ('extract', 1)
        if x.kind == 'symlink':
            if not self._parent_ok(path) or (path.rstrip(b'/') + b'/') in self.dirs:
                return ('extract', 0)
            self.files.add(path)
            if is_dangerous(n['symlink']):
                # longest path first; among equal lengths the later one goes in front (either order is acceptable)
                L = len(self.full(idx))
                k = 0
                while k < len(self.deferred) and len(self.full(self.deferred[k])) > L:
                    k += 1
                self.deferred.insert(k, idx)
            return ('extract', 1)
        # directory
        d = path.rstrip(b'/') + b'/'
        if d in self.dirs:
            return ('extract', 1)
        if not self._parent_ok(path) or path.rstrip(b'/') in self.files:
            return ('extract', 0)
        self.dirs.add(d)
        if self.policy != PLAIN:
            self.stack.append(idx)
        return ('extract', 1)
