"""LZ77 command lists and their meaning.  ('L', byte) | ('C', distance, length); distance 1 = previous byte.
Copies read a sliding window that starts filled with `fill` (spaces for the LHA family)."""


def expand(cmds, fill=0x20):
    o = bytearray()
    for c in cmds:
        if c[0] == 'L':
            o.append(c[1])
        else:
            d, n = c[1], c[2]
            p = len(o) - d
            if p >= 0 and d >= n:
                o += o[p:p + n]
            else:
                for _ in range(n):
                    o.append(o[p] if p >= 0 else fill)
                    p += 1
    return bytes(o)


def kraft_lengths(rnd, k, maxlen=16, skew=False):
    """Code lengths of a random *complete* prefix code with k >= 2 leaves, none longer than maxlen."""
    L = [0]
    while len(L) < k:
        cand = [i for i, l in enumerate(L) if l < maxlen]
        i = max(cand, key=lambda i: L[i]) if skew else rnd.choice(cand)
        l = L.pop(i)
        L += [l + 1, l + 1]
    rnd.shuffle(L)
    return L


def canonical(lengths):
    """lengths: {symbol: len>0}.  Textbook canonical assignment: codes in order of (length, symbol)."""
    code, prev, out = 0, 0, {}
    for l, s in sorted((l, s) for s, l in lengths.items()):
        code <<= (l - prev)
        prev = l
        out[s] = (code, l)
        code += 1
    return out


def is_complete(lengths):
    from fractions import Fraction
    return sum(Fraction(1, 1 << l) for l in lengths) == 1
