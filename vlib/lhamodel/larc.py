"""LArc -lzs- / -lz5- serialisers and ring models, from the format description.
Commands: ('L', byte) | ('P', position, length) with an *absolute* ring position.
-lz5-: 4 KiB ring pre-filled with the LArc pattern, write position 4096-18, lengths 3..18,
       runs of eight commands behind a flag byte (bit k set = literal, LSB first), copy = lo8(pos), hi4(pos)<<4 | len-3.
-lzs-: 2 KiB ring of spaces, write position 2048-17, lengths 2..17, bit stream: 1+8 bits literal, 0+11+4 bits copy."""
from .bits import BitWriter


def lz5_initial():
    r = bytearray()
    for i in range(256):
        r += bytes([i]) * 13
    r += bytes(range(256))
    r += bytes(range(255, -1, -1))
    r += bytes(128)
    r += b' ' * 110
    r += bytes(18)
    assert len(r) == 4096
    return r


def expand_ring(cmds, ring, wp):
    size = len(ring)
    ring = bytearray(ring)
    out = bytearray()
    for c in cmds:
        if c[0] == 'L':
            out.append(c[1])
            ring[wp] = c[1]
            wp = (wp + 1) % size
        else:
            p, n = c[1], c[2]
            for i in range(n):
                b = ring[(p + i) % size]
                out.append(b)
                ring[wp] = b
                wp = (wp + 1) % size
    return bytes(out)


def expand_lz5(cmds):
    return expand_ring(cmds, lz5_initial(), 4096 - 18)


def expand_lzs(cmds):
    return expand_ring(cmds, b' ' * 2048, 2048 - 17)


def serialise_lz5(cmds, rnd):
    out = bytearray()
    for i in range(0, len(cmds), 8):
        grp = cmds[i:i + 8]
        flags = 0
        body = bytearray()
        for k, c in enumerate(grp):
            if c[0] == 'L':
                flags |= 1 << k
                body.append(c[1])
            else:
                p, n = c[1], c[2]
                assert 0 <= p < 4096 and 3 <= n <= 18
                body.append(p & 0xff)
                body.append(((p >> 4) & 0xf0) | (n - 3))
        for k in range(len(grp), 8):          # unused flag bits of a final short run: arbitrary
            if rnd.random() < 0.5:
                flags |= 1 << k
        out.append(flags)
        out += body
    return bytes(out)


def serialise_lzs(cmds, rnd):
    bw = BitWriter()
    for c in cmds:
        if c[0] == 'L':
            bw.put(1, 1)
            bw.put(c[1], 8)
        else:
            p, n = c[1], c[2]
            assert 0 <= p < 2048 and 2 <= n <= 17
            bw.put(0, 1)
            bw.put(p, 11)
            bw.put(n - 2, 4)
    return bw.bytes(pad_bit=rnd.randrange(2))


def gen_cmds(rnd, method, ncmds):
    size, lo, hi, start = (4096, 3, 18, 4096 - 18) if method == '-lz5-' else (2048, 2, 17, 2048 - 17)
    wp = start
    cmds = []
    lit_p = rnd.choice([0.1, 0.5, 0.9])
    for _ in range(ncmds):
        if rnd.random() < lit_p:
            cmds.append(('L', rnd.randrange(256)))
            wp = (wp + 1) % size
        else:
            r = rnd.random()
            if r < 0.2:
                p = wp                                  # at the write position: reads what it writes
            elif r < 0.35:
                p = (wp - rnd.randrange(1, 4)) % size   # just behind: self-overlap
            elif r < 0.5:
                p = (size - rnd.randrange(1, 20)) % size  # the seam
            elif r < 0.6:
                p = rnd.randrange(0, 20)
            elif r < 0.7:
                p = (wp + rnd.randrange(1, 40)) % size  # just ahead: never-written, about to be overwritten
            else:
                p = rnd.randrange(size)
            n = rnd.choice([lo, hi, rnd.randrange(lo, hi + 1)])
            cmds.append(('P', p, n))
            wp = (wp + n) % size
    return cmds
