"""LHA file-header encoder (levels 0-3) and the normaliser giving the fields a correct reader must return.

A member is a dict:
  level 0..3, method (5 bytes), size, crc, data (bytes that follow the header), os (level>=1),
  dostime (level 0/1) | time (level 2/3), name (level 0/1 in-header name bytes),
  area (level-0 extended area bytes), l1extra (level-1 bytes between OS byte and next-size field),
  exts [(type, data)...] (level>=1), pad (level-2 trailing pad), packed_field (override of the size field),
  bad_ccrc (do not fix the common CRC), attr (attribute byte, default 0x20)
"""
import struct, calendar, os, time
from .crc16 import crc16


def u16(v):
    return struct.pack('<H', v & 0xffff)


def u32(v):
    return struct.pack('<I', v & 0xffffffff)


def ext_chain(exts, fs):
    """-> (first size field value, bytes of all extended headers incl. each trailing next-size field, total size)"""
    sz = u16 if fs == 2 else u32
    sizes = [1 + len(d) + fs for t, d in exts] + [0]
    out = b''
    for i, (t, d) in enumerate(exts):
        out += bytes([t]) + d + sz(sizes[i + 1])
    return sizes[0], out, sum(sizes)


def dos_time(y, mo, d, h, mi, s2):
    """raw MS-DOS date/time word from raw field values (year offset 0..127, sec/2)"""
    return (y << 25) | (mo << 21) | (d << 16) | (h << 11) | (mi << 5) | s2


def dos_to_unix(raw, tz_local=False):
    """What mktime() makes of the MS-DOS fields (out-of-range fields normalised arithmetically), mod 2^32."""
    if raw == 0:
        return 0
    sec = (raw << 1) & 0x3e
    mi = (raw >> 5) & 0x3f
    h = (raw >> 11) & 0x1f
    d = (raw >> 16) & 0x1f
    mo = ((raw >> 21) & 0xf) - 1
    y = 1980 + ((raw >> 25) & 0x7f)
    if tz_local:
        return int(time.mktime((y, mo + 1, d, h, mi, sec, 0, 0, -1))) & 0xffffffff
    y += mo // 12
    mo %= 12
    days = calendar.timegm((y, mo + 1, 1, 0, 0, 0)) // 86400 + (d - 1)
    return (days * 86400 + h * 3600 + mi * 60 + sec) & 0xffffffff


def build_header(m):
    """-> (header bytes, list of byte offsets of common-CRC fields)"""
    lvl = m['level']
    method = m['method']
    exts = m.get('exts', [])
    data = m['data']
    attr = m.get('attr', 0x20)
    if lvl in (0, 1):
        name = m['name']
        base = bytearray(b'\0\0' + method + u32(0) + u32(m['size']) + u32(m['dostime']) + bytes([attr, lvl, len(name)])
                         + name + u16(m['crc']))
        if lvl == 0:
            base += m.get('area', b'')
            base[0] = (len(base) - 2) & 0xff
            base[7:11] = u32(m.get('packed_field', len(data)))
            base[1] = sum(base[2:]) & 0xff
            return bytes(base), []
        first, chain, total = ext_chain(exts, 2)
        base += bytes([m['os']]) + m.get('l1extra', b'') + u16(first)
        base[0] = (len(base) - 2) & 0xff
        base[7:11] = u32(m.get('packed_field', len(data) + total))
        base[1] = sum(base[2:]) & 0xff
        hdr = bytearray(base + chain)
        ext_off = len(base)
    elif lvl == 2:
        first, chain, total = ext_chain(exts, 2)
        hdr = bytearray(u16(0) + method + u32(m.get('packed_field', len(data))) + u32(m['size']) + u32(m['time'])
                        + bytes([attr, 2]) + u16(m['crc']) + bytes([m['os']]) + u16(first) + chain + m.get('pad', b''))
        hl = len(hdr)
        if m['os'] == ord('K'):
            hl -= 2
        hdr[0:2] = u16(hl)
        ext_off = 26
    else:
        first, chain, total = ext_chain(exts, 4)
        hdr = bytearray(u16(4) + method + u32(m.get('packed_field', len(data))) + u32(m['size']) + u32(m['time'])
                        + bytes([attr, 3]) + u16(m['crc']) + bytes([m['os']]) + u32(0) + u32(first) + chain)
        hdr[24:28] = u32(len(hdr))
        ext_off = 32
    pos = []
    fs = 4 if lvl == 3 else 2
    off = ext_off
    for t, d in exts:
        if t == 0 and len(d) >= 2:
            pos.append(off + 1)
        off += 1 + len(d) + fs
    if pos and not m.get('bad_ccrc'):
        for p in pos:
            hdr[p:p + 2] = b'\0\0'
        c = crc16(hdr)
        for p in pos:
            hdr[p:p + 2] = u16(c)
    return bytes(hdr), pos


def build(m):
    return build_header(m)[0] + m['data']


def collapse(p):
    lead = b''
    if p[:1] == b'/':
        lead = b'/'
        p = p[1:]
    comps = []
    parts = p.split(b'/')
    tail = parts[-1]
    for c in parts[:-1]:
        if c in (b'', b'.'):
            continue
        if c == b'..':
            if comps:
                comps.pop()
            continue
        comps.append(c)
    return lead + b''.join(c + b'/' for c in comps) + tail


def cstr(b):
    return b.split(b'\0')[0]


EXT_MINLEN = {0: 2, 1: 1, 2: 1, 0x41: 24, 0x50: 2, 0x51: 4, 0x52: 1, 0x53: 1, 0x54: 4, 0xcc: 12}
F_PERMS, F_UIDGID, F_CCRC, F_WIN, F_OS9 = 1, 2, 4, 8, 16
ALLCAPS_OS = (0, ord('M'), ord('a'), ord(' '), ord('2'))


def normalise(m, tz_local=False):
    """The LHAFileHeader a correct reader returns for member m, or None if the entry lacks its mandatory name/path."""
    lvl = m['level']
    h = dict(level=lvl, path=None, filename=None, symlink=None, method=m['method'], size=m['size'], crc=m['crc'], flags=0,
             perms=0, uid=0, gid=0, os9=0, user=None, group=None, ccrc=0, win=None,
             packed=m.get('packed_field', len(m['data'])) if lvl != 1 else len(m['data']))

    def split(h):
        fn = h['filename']
        i = fn.rfind(b'/')
        if i >= 0:
            h['path'] = fn[:i + 1]
            h['filename'] = fn[i + 1:]
    if lvl in (0, 1):
        h['time'] = dos_to_unix(m['dostime'], tz_local)
        h['os'] = 0 if lvl == 0 else m['os']
        if len(m['name']):
            h['filename'] = cstr(m['name'].replace(b'\\', b'/'))
            split(h)
        if lvl == 0:
            a = m.get('area', b'')
            if a and not m['method'].startswith(b'-pm'):
                if a[0] in (ord('U'), ord('K')) and len(a) >= 12 and a[1] == 0:
                    h['os'] = a[0]
                    h['time'] = struct.unpack('<I', a[2:6])[0]
                    h['perms'], h['uid'], h['gid'] = struct.unpack('<HHH', a[-6:])
                    h['flags'] |= F_PERMS | F_UIDGID
                elif a[0] == ord('9') and len(a) >= 22 and a[9] == 0xcc and a[1] == a[17] and a[2] == a[18]:
                    h['os'] = ord('9')
                    h['os9'] = struct.unpack('<H', a[1:3])[0]
                    h['flags'] |= F_OS9
        else:
            if 'packed_field' in m:
                tot = ext_chain(m.get('exts', []), 2)[2]
                h['packed'] = m['packed_field'] - tot
    else:
        h['time'] = m['time']
        h['os'] = m['os']
    for t, d in (m.get('exts', []) if lvl > 0 else []):
        if t not in EXT_MINLEN or len(d) < EXT_MINLEN[t]:
            continue
        if t == 0:
            h['flags'] |= F_CCRC
            h['ccrc'] = None
        elif t == 1:
            h['filename'] = cstr(d).replace(b'/', b'_')
        elif t == 2:
            p = d if d[-1] == 0xff else d + b'\xff'
            h['path'] = cstr(p).replace(b'\xff', b'/')
        elif t == 0x41:
            h['flags'] |= F_WIN
            h['win'] = list(struct.unpack('<QQQ', d[:24]))
        elif t == 0x50:
            h['flags'] |= F_PERMS
            h['perms'] = struct.unpack('<H', d[:2])[0]
        elif t == 0x51:
            h['flags'] |= F_UIDGID
            h['gid'], h['uid'] = struct.unpack('<HH', d[:4])
        elif t == 0x52:
            h['group'] = cstr(d)
        elif t == 0x53:
            h['user'] = cstr(d)
        elif t == 0x54:
            h['time'] = struct.unpack('<I', d[:4])[0]
        elif t == 0xcc:
            h['flags'] |= F_OS9
            h['os9'] = struct.unpack('<H', d[7:9])[0]
    if h['os'] == ord('A') and h['method'] == b'-lh0-' and h['size'] == 0 and h['filename'] is None:
        h['method'] = b'-lhd-'
    if h['method'] != b'-lhd-':
        if h['filename'] is None:
            return None
    elif (h['flags'] & F_PERMS) and (h['path'] is not None or h['filename'] is not None) and (h['perms'] & 0o170000) == 0o120000:
        full = (h['path'] or b'') + (h['filename'] or b'')
        i = full.find(b'|')
        if i < 0:
            return None
        h['symlink'] = full[i + 1:]
        h['path'] = None
        h['filename'] = full[:i]
        split(h)
    elif h['path'] is None:
        return None
    if h['os'] in ALLCAPS_OS:
        allb = (h['path'] or b'') + (h['filename'] or b'')
        if not any(0x61 <= c <= 0x7a for c in allb):
            low = lambda b: None if b is None else bytes(c + 32 if 0x41 <= c <= 0x5a else c for c in b)
            h['path'] = low(h['path'])
            h['filename'] = low(h['filename'])
    if h['path'] is not None:
        h['path'] = collapse(h['path'])
    if h['os'] == ord('K') and (h['flags'] & F_PERMS):
        h['os9'] = h['perms']
        h['flags'] |= F_OS9
    if h['flags'] & F_OS9:
        o = h['os9']
        b = lambda k: 1 if o & k else 0
        h['flags'] |= F_PERMS
        h['perms'] = (b(0x80) << 14) | (b(1) << 8) | (b(2) << 7) | (b(4) << 6) | (b(8) << 5) | (b(16) << 4) | (b(32) << 3) \
            | (b(8) << 2) | (b(16) << 1) | b(32)
    if lvl == 1 and h['os'] == 0x20 and h['method'] == b'-lh7-':
        h['method'] = b'-lk7-'
    return h


def simple_member(name, data, level=2, method=b'-lh0-', size=None, crc=None, os_type=ord('U'), mtime=1000000000,
                  perms=None, uidgid=None, path=None, packed=None, extra_exts=()):
    """Convenience: a well-formed file member.  name/path are bytes with '/' separators (path ends in '/')."""
    m = dict(level=level, method=method, size=len(data) if size is None else size,
             crc=crc16(data) if crc is None else crc, data=packed if packed is not None else data, os=os_type)
    full = (path or b'') + name
    if level in (0, 1):
        m['dostime'] = unix_to_dos(mtime)
        m['name'] = full          # '/' separators are accepted as they are ('\\' is the DOS form, exercised by C05)
        exts = []
        if level == 0:
            if perms is not None or uidgid is not None:
                ug = uidgid or (0, 0)
                m['area'] = b'U\0' + u32(mtime) + u16(perms if perms is not None else 0o100644) + u16(ug[0]) + u16(ug[1])
        else:
            if perms is not None:
                exts.append((0x50, u16(perms)))
            if uidgid is not None:
                exts.append((0x51, u16(uidgid[1]) + u16(uidgid[0])))
            exts.append((0x54, u32(mtime)))
            m['exts'] = exts + list(extra_exts)
    else:
        m['time'] = mtime
        exts = []
        if name:
            exts.append((1, name))
        if path:
            exts.append((2, path.replace(b'/', b'\xff')))
        if perms is not None:
            exts.append((0x50, u16(perms)))
        if uidgid is not None:
            exts.append((0x51, u16(uidgid[1]) + u16(uidgid[0])))
        m['exts'] = exts + list(extra_exts)
    return m


def dir_member(path, level=2, os_type=ord('U'), mtime=1000000000, perms=None, uidgid=None):
    """A directory entry; path ends in '/'."""
    m = simple_member(b'', b'', level=level, method=b'-lhd-', os_type=os_type, mtime=mtime, perms=perms, uidgid=uidgid, path=path)
    return m


def symlink_member(linkpath, target, level=2, mtime=1000000000, uidgid=None):
    """A Unix symbolic link entry.  As Unix LHA writes them: the string 'linkpath|target' is split at its *last* '/'
    into the path part and the name part (so a target with slashes ends up partly in the path header)."""
    full = linkpath + b'|' + target
    i = full.rfind(b'/')
    path, name = (full[:i + 1], full[i + 1:]) if i >= 0 else (b'', full)
    m = simple_member(name, b'', level=level, method=b'-lhd-', os_type=ord('U'), mtime=mtime,
                      perms=0o120777, uidgid=uidgid, path=path)
    if level >= 2 and not name:
        # a target ending in '/' leaves no name part: keep the filename header out altogether
        m['exts'] = [e for e in m['exts'] if e[0] != 1]
    return m


def unix_to_dos(t):
    """Unix time -> DOS word under TZ=UTC (even seconds, 1980..2107)."""
    tm = time.gmtime(t)
    if tm.tm_year < 1980:
        return dos_time(0, 1, 1, 0, 0, 0)
    return dos_time(tm.tm_year - 1980, tm.tm_mon, tm.tm_mday, tm.tm_hour, tm.tm_min, tm.tm_sec // 2)
