"""CRC-16/ARC by its bitwise definition (reflected polynomial 0xA001, init 0, no final xor)."""
_T = []
for _i in range(256):
    _c = _i
    for _ in range(8):
        _c = (_c >> 1) ^ 0xA001 if _c & 1 else _c >> 1
    _T.append(_c)


def crc16_bitwise(data, c=0):
    for x in data:
        c ^= x
        for _ in range(8):
            c = (c >> 1) ^ 0xA001 if c & 1 else c >> 1
    return c


def crc16(data, c=0):
    """Table form derived from the bitwise definition above (self-checked on import)."""
    t = _T
    for x in data:
        c = (c >> 8) ^ t[(c ^ x) & 0xff]
    return c


assert crc16(b'123456789') == crc16_bitwise(b'123456789') == 0xBB3D
