"""Reference-model self-checks against ground truth recorded in the repository (never against lhasa's code):
the list renderer must reproduce the listings recorded from the real Unix LHA tool in test/output/*-{l,lv,v,vv}.txt."""
import os, glob, time, sys


def listing_selfcheck(repo='/repo', verbose=False):
    from . import listing
    old = os.environ.get('TZ')
    os.environ['TZ'] = 'Europe/London'
    time.tzset()
    try:
        now = 1335830400
        mtime = int(time.mktime((2000, 1, 1, 0, 0, 0, 0, 0, -1)))
        tot = bad = 0
        badfiles = []
        for hf in sorted(glob.glob(os.path.join(repo, 'test', 'output', '*', '*-hdr.txt'))):
            raw = open(hf, 'rb').read()
            hs = listing.parse_hdr(hf)
            for cmd in ('l', 'lv', 'v', 'vv'):
                rf = hf.replace('-hdr.txt', '-%s.txt' % cmd)
                if not os.path.exists(rf):
                    continue
                tot += 1
                if open(rf, 'rb').read() != listing.render(hs, cmd, now, mtime):
                    bad += 1
                    badfiles.append(os.path.relpath(rf, repo))
        return tot, bad, badfiles
    finally:
        if old is None:
            os.environ.pop('TZ', None)
        else:
            os.environ['TZ'] = old
        time.tzset()


def main(quick=True):
    tot, bad, badfiles = listing_selfcheck()
    # one corpus archive has a raw newline inside a name in its -hdr.txt (an artefact of that dump format, not of the layout)
    print('SELFCHECK listing renderer: %d recorded listings, %d differ' % (tot, bad))
    if tot < 500 or any('badterm' not in f for f in badfiles):
        print('SELFCHECK FAILED: list renderer disagrees with the recorded real-tool listings:', badfiles[:10])
        sys.exit(1)
