"""MSB-first bit writer (the bit order of every LHA-family stream) and reader."""


class BitWriter:
    def __init__(self):
        self.buf = bytearray()
        self.acc = 0
        self.n = 0
        self.total = 0
        self.marks = []          # (kind, start_bit, end_bit) of table regions, for targeted corruption

    def put(self, v, n):
        if n <= 0:
            return
        assert 0 <= v < (1 << n), (v, n)
        self.acc = (self.acc << n) | v
        self.n += n
        self.total += n
        while self.n >= 8:
            self.n -= 8
            self.buf.append((self.acc >> self.n) & 0xff)
        self.acc &= (1 << self.n) - 1

    def putcode(self, code):
        self.put(code[0], code[1])

    def mark(self, kind, start):
        self.marks.append((kind, start, self.total))

    def bytes(self, pad_bit=0):
        out = bytearray(self.buf)
        if self.n:
            v = self.acc << (8 - self.n)
            if pad_bit:
                v |= (1 << (8 - self.n)) - 1
            out.append(v & 0xff)
        return bytes(out)


class BitReader:
    def __init__(self, data):
        self.d = data
        self.pos = 0

    def get(self, n):
        v = 0
        for _ in range(n):
            byte = self.pos >> 3
            if byte >= len(self.d):
                raise EOFError
            v = (v << 1) | ((self.d[byte] >> (7 - (self.pos & 7))) & 1)
            self.pos += 1
        return v
