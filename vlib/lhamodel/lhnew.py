"""Serialiser for the static-Huffman LHA methods (-lh4- -lh5- -lh6- -lh7- -lhx- and LHARK's -lk7-).

Written from the format description, not from lhasa: per block a 16-bit command count, the
"temp" table (5-bit count, 3-bit lengths with unary extension from 7, a 2-bit skip field after
the third entry), the code table (9-bit count, entries coded with the temp code: 0/1/2 = zero
runs of 1 / 3..18 (4 bits) / 20..531 (9 bits), k>=3 = length k-2), the offset table
(OFFSET_BITS-bit count, 3-bit lengths with unary extension), canonical codes in (length, symbol)
order, then the commands.  Distances: code b = bit length of (distance-1), followed by b-1 bits.
"""
from .bits import BitWriter
from .lz import kraft_lengths, canonical, expand

#            offset_bits, dictionary size (max distance), number of codes, lhark
METHODS = {
    '-lh4-': (4, 4096, 510, False),
    '-lh5-': (4, 8192, 510, False),
    '-lh6-': (5, 32768, 510, False),
    '-lh7-': (5, 65536, 510, False),
    '-lhx-': (5, 524288, 510, False),
    '-lk7-': (6, 65536, 289, True),
}
RING = {'-lh4-': 1 << 14, '-lh5-': 1 << 14, '-lh6-': 1 << 16, '-lh7-': 1 << 17, '-lhx-': 1 << 20, '-lk7-': 1 << 16}


def max_copy(method):
    return 514 if METHODS[method][3] else 256


def off_code(d0):            # d0 = distance - 1
    if d0 < 2:
        return d0, 0, 0
    b = d0.bit_length()
    return b, d0 - (1 << (b - 1)), b - 1


def lk_len(n):               # LHARK copy-length code: symbol, extra value, extra bits
    v = n - 3
    if v < 8:
        return 256 + v, 0, 0
    nlb = v.bit_length() - 3
    k = (v >> nlb) - 4
    return 264 + 4 * (nlb - 1) + k, v & ((1 << nlb) - 1), nlb


def lk_off(d0):
    if d0 < 4:
        return d0, 0, 0
    nlb = d0.bit_length() - 2
    k = (d0 >> nlb) - 2
    return 2 + 2 * nlb + k, d0 & ((1 << nlb) - 1), nlb


def put_len(bw, l, feat):
    if l < 7:
        bw.put(l, 3)
    else:
        bw.put(7, 3)
        for _ in range(l - 7):
            bw.put(1, 1)
        bw.put(0, 1)
        feat.add('len-unary')
        if l == 16:
            feat.add('len16-unary')


class Knobs:
    """Per-stream choices; None = draw from rnd."""
    def __init__(self, **kw):
        self.block_sizes = None      # list of block sizes (cycled) or None
        self.skip = None             # forced 2-bit skip value where legal
        self.temp_pad = None         # forced temp-table count (>= needed)
        self.code_pad = None         # forced code-table count
        self.off_pad = None
        self.run_pref = None         # preferred zero-run class 0/1/2
        self.skew = None             # True: maximally skewed (16-bit) code tables
        self.extra_syms = None       # number of unused-but-coded symbols to add
        self.off_single = None       # value to put in a single-form offset table when no copies
        self.temp_single = None
        self.force_multi_temp = False
        self.__dict__.update(kw)


def _choose_lengths(rnd, used, universe, knobs, feat, tag, maxlen=16):
    """Kraft-complete code over `used` (plus optional unused extras from universe)."""
    used = sorted(used)
    extra = knobs.extra_syms
    if extra is None:
        extra = rnd.choice([0, 0, 0, 1, 3, 20]) if len(universe) > len(used) else 0
    syms = list(used)
    if extra:
        pool = [s for s in universe if s not in set(used)]
        rnd.shuffle(pool)
        syms += pool[:extra]
        if pool[:extra]:
            feat.add(tag + '-unused-coded')
    if len(syms) < 2:
        pool = [s for s in universe if s not in set(syms)]
        syms.append(rnd.choice(pool))
    skew = knobs.skew if knobs.skew is not None else rnd.random() < 0.12
    L = kraft_lengths(rnd, len(syms), maxlen, skew=skew)
    if max(L) == 16:
        feat.add(tag + '-len16')
    if len(syms) == 2:
        feat.add(tag + '-two')
    return dict(zip(syms, L))


def _write_temp_full(bw, rnd, tused, knobs, feat):
    tl = _choose_lengths(rnd, tused, range(19), Knobs(extra_syms=0 if len(tused) >= 2 else 1,
                                                       skew=knobs.skew), feat, 'temp')
    tn = max(tl) + 1
    if knobs.temp_pad is not None:
        tn = max(tn, min(31, knobs.temp_pad))
    elif rnd.random() < 0.2:
        tn = rnd.randrange(tn, 32)
    bw.put(tn, 5)
    tarr = [tl.get(i, 0) for i in range(tn)]
    i = 0
    while i < tn:
        put_len(bw, tarr[i], feat)
        i += 1
        if i == 3:
            z = 0
            while z < 3 and (3 + z >= tn or tarr[3 + z] == 0):
                z += 1
            s = knobs.skip if (knobs.skip is not None and knobs.skip <= z) else rnd.randrange(z + 1)
            bw.put(s, 2)
            i += s
            feat.add('skip%d' % s)
            feat.add('temp-n%s' % ('=3' if tn == 3 else '>3'))
    if tn < 3:
        feat.add('temp-n<3')
    if tn == 31:
        feat.add('temp-n-max')
    return canonical(tl)


def write_block(bw, rnd, method, cmds, knobs, feat):
    OB, window, NC, lhark = METHODS[method]
    syms, offs, extras = [], [], []
    for c in cmds:
        if c[0] == 'L':
            syms.append(c[1])
            extras.append(None)
        else:
            d, n = c[1], c[2]
            if lhark:
                s, lx, lb = lk_len(n)
                if n == 514 and rnd.random() < 0.5:
                    s, lx, lb = 288, 0, 0
                oc, ox, ob = lk_off(d - 1)
            else:
                s, lx, lb = 256 + n - 3, 0, 0
                oc, ox, ob = off_code(d - 1)
            syms.append(s)
            offs.append(oc)
            extras.append((lx, lb, oc, ox, ob))
    bw.put(len(cmds), 16)
    used = sorted(set(syms))
    t0 = bw.total
    # ---- code table (preceded by its temp table) ----
    single = len(used) == 1 and (knobs.extra_syms in (None, 0)) and not knobs.force_multi_temp
    if single:
        # a temp table is present even when unused: single form with an arbitrary code
        if knobs.temp_single is None and rnd.random() < 0.4:
            # ... or a complete table in the long form that nothing refers to (any entry count, with its skip field)
            k = rnd.choice([2, 3, 3, rnd.randrange(2, 8)])
            hi = rnd.choice([3, 3, 4, 19])
            _write_temp_full(bw, rnd, sorted(rnd.sample(range(hi), min(k, hi))), knobs, feat)
            feat.add('temp-unused-long-form')
        else:
            tv = knobs.temp_single if knobs.temp_single is not None else rnd.randrange(32)
            bw.put(0, 5)
            bw.put(tv, 5)
        bw.mark('temp', t0)
        t1 = bw.total
        bw.put(0, 9)
        bw.put(used[0], 9)
        bw.mark('code', t1)
        ccode = {used[0]: (0, 0)}
        feat.add('code-single-' + ('lit' if used[0] < 256 else 'copy'))
        feat.add('temp-single')
    else:
        clen = _choose_lengths(rnd, used, range(NC), knobs, feat, 'code')
        n = max(clen) + 1
        if knobs.code_pad is not None:
            n = max(n, min(NC, knobs.code_pad))
        elif rnd.random() < 0.2:
            n = rnd.randrange(n, NC + 1)
        if n == NC:
            feat.add('code-n-max')
        arr = [clen.get(i, 0) for i in range(n)]
        toks = []
        i = 0
        while i < n:
            if arr[i]:
                toks.append((arr[i] + 2, None))
                i += 1
                continue
            j = i
            while j < n and arr[j] == 0:
                j += 1
            run = j - i
            pieces = 0
            while run > 0:
                opts = [0]
                if run >= 3:
                    opts.append(1)
                if run >= 20:
                    opts.append(2)
                t = knobs.run_pref if knobs.run_pref in opts else rnd.choice(opts)
                if t == 0:
                    toks.append((0, None))
                    run -= 1
                elif t == 1:
                    k = rnd.choice([3, min(run, 18), rnd.randrange(3, min(run, 18) + 1)])
                    toks.append((1, k - 3))
                    run -= k
                else:
                    k = rnd.choice([20, min(run, 531), rnd.randrange(20, min(run, 531) + 1)])
                    toks.append((2, k - 20))
                    run -= k
                feat.add('run%d' % t)
                pieces += 1
            if pieces > 1:
                feat.add('run-mixed')
            i = j
        tused = sorted(set(t for t, _ in toks))
        if len(tused) == 1 and not knobs.force_multi_temp:
            bw.put(0, 5)
            bw.put(tused[0], 5)
            tcode = {tused[0]: (0, 0)}
            feat.add('temp-single')
        else:
            tcode = _write_temp_full(bw, rnd, tused, knobs, feat)
        bw.mark('temp', t0)
        t1 = bw.total
        bw.put(n, 9)
        for t, x in toks:
            bw.putcode(tcode[t])
            if t == 1:
                bw.put(x, 4)
            elif t == 2:
                bw.put(x, 9)
        bw.mark('code', t1)
        ccode = canonical(clen)
    # ---- offset table ----
    t2 = bw.total
    oused = sorted(set(offs))
    maxoc = (1 << OB) - 1          # count field maximum; codes 0..maxoc-1 in table form
    if len(oused) <= 1 and not (knobs.off_pad and oused):
        if oused:
            oc = oused[0]
        elif knobs.off_single is not None:
            oc = knobs.off_single
        else:
            oc = rnd.randrange(1 << OB)
        bw.put(0, OB)
        bw.put(oc, OB)
        ocode = {oc: (0, 0)}
        feat.add('off-single' + ('' if oused else '-unused'))
    else:
        ol = _choose_lengths(rnd, oused, range(maxoc), Knobs(extra_syms=knobs.extra_syms if len(oused) >= 2 else 1,
                                                             skew=knobs.skew), feat, 'off', maxlen=16)
        on = max(ol) + 1
        if knobs.off_pad is not None:
            on = max(on, min(maxoc, knobs.off_pad))
        elif rnd.random() < 0.2:
            on = rnd.randrange(on, maxoc + 1)
        if on == maxoc:
            feat.add('off-n-max')
        bw.put(on, OB)
        for i in range(on):
            put_len(bw, ol.get(i, 0), feat)
        ocode = canonical(ol)
        feat.add('off-multi')
    bw.mark('off', t2)
    # ---- commands ----
    for s, ex in zip(syms, extras):
        bw.putcode(ccode[s])
        if ex is not None:
            lx, lb, oc, ox, ob = ex
            if lb:
                bw.put(lx, lb)
            bw.putcode(ocode[oc])
            if ob:
                bw.put(ox, ob)


def serialise(method, cmds, rnd, knobs=None, feat=None):
    """-> (stream bytes, BitWriter marks).  feat (a set) collects the shapes emitted."""
    knobs = knobs or Knobs()
    feat = feat if feat is not None else set()
    bw = BitWriter()
    i = 0
    bi = 0
    nblocks = 0
    while i < len(cmds):
        if knobs.block_sizes:
            k = knobs.block_sizes[bi % len(knobs.block_sizes)]
            bi += 1
        else:
            k = rnd.choice([1, 2, 7, 300, 65535, len(cmds) - i])
        k = max(1, min(k, 65535, len(cmds) - i))
        write_block(bw, rnd, method, cmds[i:i + k], knobs, feat)
        if k == 1:
            feat.add('block-1')
        if k == 65535:
            feat.add('block-65535')
        i += k
        nblocks += 1
    if nblocks > 1:
        feat.add('multi-block')
    return bw.bytes(pad_bit=rnd.randrange(2)), bw.marks


def gen_cmds(rnd, method, ncmds, copy_p=None, alpha=None, produced_only=False):
    """Random command list within the method's dictionary size."""
    OB, window, NC, lhark = METHODS[method]
    mx = max_copy(method)
    copy_p = rnd.choice([0.0, 0.3, 0.9]) if copy_p is None else copy_p
    alpha = rnd.choice([1, 2, 3, 20, 256]) if alpha is None else alpha
    base = rnd.randrange(256)
    cmds = []
    outlen = 0
    lens = [3, 4, mx, mx - 1]
    if lhark:
        lens += [10, 11, 12, 18, 19, 34, 35, 66, 67, 130, 131, 258, 259, 450, 451, 513, 514]
    for _ in range(ncmds):
        if rnd.random() < copy_p:
            lim = min(window, outlen) if produced_only else window
            if lim < 1:
                cmds.append(('L', (base + rnd.randrange(alpha)) & 0xff))
                outlen += 1
                continue
            r = rnd.random()
            if r < 0.15:
                d = 1
            elif r < 0.25:
                d = 2
            elif r < 0.35:
                d = lim
            elif r < 0.45:
                d = max(1, lim - 1)
            elif r < 0.55:
                d = min(lim, outlen + rnd.randrange(1, 40))      # just into the pre-filled window
            elif r < 0.75:
                d = rnd.randrange(1, min(lim, 300) + 1)
            else:
                b = rnd.randrange(1, lim.bit_length() + 1)          # uniform over distance bit-lengths
                d = min(lim, rnd.randrange(1 << (b - 1), 1 << b))
            n = rnd.choice(lens) if rnd.random() < 0.4 else rnd.randrange(3, mx + 1)
            cmds.append(('C', d, n))
            outlen += n
        else:
            cmds.append(('L', (base + rnd.randrange(alpha)) & 0xff))
            outlen += 1
    return cmds


def classify(method, cmds):
    """Feature labels of a command list (for coverage histograms)."""
    OB, window, NC, lhark = METHODS[method]
    f = set()
    outlen = 0
    for c in cmds:
        if c[0] == 'C':
            d, n = c[1], c[2]
            if d == 1:
                f.add('dist-1')
            if d == window:
                f.add('dist-window')
            if d == window - 1:
                f.add('dist-window-1')
            if d > outlen:
                f.add('dist-prefill')
            if d < n:
                f.add('overlap')
            if n == 3:
                f.add('len-3')
            if n == max_copy(method):
                f.add('len-max')
            outlen += n
        else:
            outlen += 1
    if outlen > RING[method]:
        f.add('ring-wrap')
    return f
