"""The published LZHUF adaptive-Huffman *encoder* (Yoshizaki/Okumura), used as the reference for -lh1-.
freq/prnt/son arrays, update() with its linear scan-and-exchange, reconst() at MAX_FREQ = 0x8000,
and the fixed position code for the upper six distance bits (lengths 3..8 with multiplicities
1,3,8,12,24,16, assigned canonically).  lhasa's decoder uses a different (group-leader)
formulation, so agreement is evidence, not tautology."""
from .bits import BitWriter

N_CHAR = 314
T = N_CHAR * 2 - 1
R = T - 1
MAX_FREQ = 0x8000

P_LEN = []
for _n, _l in zip((1, 3, 8, 12, 24, 16), (3, 4, 5, 6, 7, 8)):
    P_LEN += [_l] * _n
P_CODE = []
_c, _prev = 0, P_LEN[0]
for _l in P_LEN:
    _c <<= (_l - _prev)
    _prev = _l
    P_CODE.append(_c)
    _c += 1
assert len(P_LEN) == 64


class Huff:
    def __init__(s):
        s.freq = [0] * (T + 1)
        s.prnt = [0] * (T + N_CHAR)
        s.son = [0] * T
        for i in range(N_CHAR):
            s.freq[i] = 1
            s.son[i] = i + T
            s.prnt[i + T] = i
        i, j = 0, N_CHAR
        while j <= R:
            s.freq[j] = s.freq[i] + s.freq[i + 1]
            s.son[j] = i
            s.prnt[i] = s.prnt[i + 1] = j
            i += 2
            j += 1
        s.freq[T] = 0xffff
        s.prnt[R] = 0
        s.reconsts = 0
        s.tie_exchanges = 0
        s.exchanges = 0
        s.max_code_bits = 0

    def reconst(s):
        s.reconsts += 1
        freq, son, prnt = s.freq, s.son, s.prnt
        j = 0
        for i in range(T):
            if son[i] >= T:
                freq[j] = (freq[i] + 1) // 2
                son[j] = son[i]
                j += 1
        i, j = 0, N_CHAR
        while j < T:
            k = i + 1
            f = freq[i] + freq[k]
            freq[j] = f
            k = j - 1
            while f < freq[k]:
                k -= 1
            k += 1
            freq[k + 1:j + 1] = freq[k:j]
            freq[k] = f
            son[k + 1:j + 1] = son[k:j]
            son[k] = i
            i += 2
            j += 1
        for i in range(T):
            k = son[i]
            if k >= T:
                prnt[k] = i
            else:
                prnt[k] = prnt[k + 1] = i

    def update(s, c):
        freq, son, prnt = s.freq, s.son, s.prnt
        if freq[R] == MAX_FREQ:
            s.reconst()
        c = prnt[c + T]
        while True:
            freq[c] += 1
            k = freq[c]
            l = c + 1
            if k > freq[l]:
                l += 1
                while k > freq[l]:
                    l += 1
                l -= 1
                if l - c >= 2:
                    s.tie_exchanges += 1
                s.exchanges += 1
                freq[c] = freq[l]
                freq[l] = k
                i = son[c]
                prnt[i] = l
                if i < T:
                    prnt[i + 1] = l
                j = son[l]
                son[l] = i
                prnt[j] = c
                if j < T:
                    prnt[j + 1] = c
                son[c] = j
                c = l
            c = prnt[c]
            if c == 0:
                break

    def code(s, bw, c):
        acc, n = 0, 0
        k = s.prnt[c + T]
        prnt = s.prnt
        while True:
            acc |= (k & 1) << n
            n += 1
            k = prnt[k]
            if k == R:
                break
        # bits were collected leaf-to-root, least significant first == root-to-leaf MSB first
        if n > s.max_code_bits:
            s.max_code_bits = n
        bw.put(acc, n)
        s.update(c)


def encode(cmds, pad_bit=0):
    """cmds: ('L', b) | ('C', distance 1..4096, length 3..60) -> (bytes, stats)"""
    h = Huff()
    bw = BitWriter()
    maxdist = 0
    for k, cmd in enumerate(cmds):
        if k % 1024 == 1023:
            # how many different frequency values the tree's nodes hold at once (lhasa's decoder keeps one group per value)
            maxdist = max(maxdist, len(set(h.freq[:T])))
        if cmd[0] == 'L':
            h.code(bw, cmd[1])
        else:
            _, dist, ln = cmd
            h.code(bw, 253 + ln)
            p = dist - 1
            hi = p >> 6
            bw.put(P_CODE[hi], P_LEN[hi])
            bw.put(p & 63, 6)
    return bw.bytes(pad_bit), {'reconsts': h.reconsts, 'tie_exchanges': h.tie_exchanges, 'exchanges': h.exchanges, 'max_code_bits': h.max_code_bits,
                               'max_distinct_freqs': max(maxdist, len(set(h.freq[:T])))}
