"""Renderer of the Unix-LHA list layout (l, lv, v, vv; quiet levels; footer), written from the layout of the real tool's
recorded listings: fixed columns PERMSSN/UID GID/PACKED/SIZE/RATIO/METHOD CRC/STAMP/NAME, float32 ratio, six-month rule.
Input rows are the dicts produced by header.normalise (or parsed from the corpus '-hdr.txt' files)."""
import struct, time

OSN = {ord('M'): "[MS-DOS]", ord('w'): "[Win9x]", ord('W'): "[WinNT]", ord('U'): "[Unix]", ord('2'): "[OS/2]", ord('C'): "[CP/M]",
       ord('m'): "[Mac OS]", ord('J'): "[Java]", ord('F'): "[FLEX]", ord('R'): "[Runser]", ord('T'): "[TownsOS]", ord('9'): "[OS-9]",
       ord('K'): "[OS-9/68K]", ord('3'): "[OS-386]", ord('H'): "[Human68K]", ord('a'): "[Atari]", ord('A'): "[Amiga]",
       ord(' '): "[LHARK]", 0: "[generic]"}
MON = "Jan Feb Mar Apr May Jun Jul Aug Sep Oct Nov Dec".split()
F_PERMS, F_UIDGID, F_OS9 = 1, 2, 16


def f32(x):
    return struct.unpack('f', struct.pack('f', x))[0]


def pct(a, b):
    return 100.0 if b == 0 else f32(f32(f32(a) * 100.0) / f32(b))


def safe(b):
    return bytes(c if 0x20 <= c < 0x7f else 0x3f for c in b)


def perm(h):
    isdir = h['method'] == b'-lhd-'
    if h['flags'] & F_OS9:
        s = 'd' if isdir else '-'
        for i, c in enumerate("sewrewr"):
            s += c if h['os9'] & (1 << (6 - i)) else '-'
        return s + '  '
    if h['flags'] & F_PERMS:
        s = '-' if not isdir else ('l' if h.get('symlink') is not None else 'd')
        for i, c in enumerate("rwxrwxrwx"):
            s += c if h['perms'] & (1 << (8 - i)) else '-'
        return s
    return "%-10s" % OSN.get(h['os'], "[unknown]")


def ugid(h):
    return "%5d/%-5d" % (h['uid'], h['gid']) if h['flags'] & F_UIDGID else " " * 11


def stamp(t, now):
    if t == 0:
        return " " * 12
    ts = time.localtime(t)
    s = "%s %2d " % (MON[ts.tm_mon - 1], ts.tm_mday)
    return s + ("%02d:%02d" % (ts.tm_hour, ts.tm_min) if t > now - 6 * 30 * 24 * 3600 else " %04d" % ts.tm_year)


def fullstamp(t):
    if t == 0:
        return " " * 19
    ts = time.localtime(t)
    return "%04d-%02d-%02d %02d:%02d:%02d" % ts[:6]


def ratio(h):
    return "******" if h['method'] == b'-lhd-' else "%5.1f%%" % pct(h['packed'], h['size'])


def name(h, sep):
    b = safe(h.get('path') or b'') + safe(h.get('filename') or b'')
    if h.get('symlink') is not None:
        b += safe(sep + h['symlink'])
    return b


COLS = {'perm': (" PERMSSN", 10), 'ugid': (" UID  GID", 11), 'packed': (" PACKED", 7), 'size': ("   SIZE", 7), 'ratio': (" RATIO", 6),
        'mcrc': ("METHOD CRC", 10), 'stamp': ("    STAMP", 12), 'fstamp': ("    STAMP", 19), 'name': ("       NAME", 20),
        'sname': ("      NAME", 13), 'wname': ("", 0), 'lv': (" LV", 3)}
HASFOOT = {'perm', 'ugid', 'packed', 'size', 'ratio', 'stamp', 'fstamp'}
LAYOUT = {'l': ['perm', 'ugid', 'size', 'ratio', 'stamp', 'name'],
          'lv': ['wname', 'perm', 'ugid', 'size', 'ratio', 'stamp', 'lv'],
          'v': ['perm', 'ugid', 'packed', 'size', 'ratio', 'mcrc', 'stamp', 'sname'],
          'vv': ['wname', 'perm', 'ugid', 'packed', 'size', 'ratio', 'mcrc', 'fstamp', 'lv']}


def render(hs, cmd, now, mtime, quiet=0):
    cols = LAYOUT[cmd]
    last = [c for c in cols if COLS[c][1]][-1]
    out = b''

    def sepline():
        s = ''
        for c in cols:
            s += '-' * COLS[c][1]
            if COLS[c][1] and c != last:
                s += ' '
        return (s + '\n').encode()
    if quiet < 2:
        s = ''
        for c in cols:
            n, w = COLS[c]
            s += n
            if w > 0 and c != last:
                s += ' ' * max(0, w + 1 - len(n))
        out += (s + '\n').encode() + sepline()
    tp = ts = 0
    for h in hs:
        row = b''
        for c in cols:
            if c == 'perm':
                cell = perm(h).encode()
            elif c == 'ugid':
                cell = ugid(h).encode()
            elif c == 'packed':
                cell = b"%7d" % h['packed']
            elif c == 'size':
                cell = b"%7d" % h['size']
            elif c == 'ratio':
                cell = ratio(h).encode()
            elif c == 'mcrc':
                cell = b"%-5s %04x" % (safe(h['method'].split(b'\0')[0]), h['crc'])
            elif c == 'stamp':
                cell = stamp(h['time'], now).encode()
            elif c == 'fstamp':
                cell = fullstamp(h['time']).encode()
            elif c in ('name', 'sname'):
                cell = name(h, b' -> ')
            elif c == 'wname':
                cell = name(h, b'|') + b'\n'
            elif c == 'lv':
                cell = b"[%d]" % h['level']
            row += cell
            if COLS[c][1] and c != last:
                row += b' '
        out += row + b'\n'
        tp = (tp + h['packed']) & 0xffffffff
        ts = (ts + h['size']) & 0xffffffff
    if quiet < 2:
        out += sepline()
        fc = list(cols)
        while fc and fc[-1] not in HASFOOT:
            fc.pop()
        s = ''
        for i, c in enumerate(fc):
            if c == 'perm':
                s += " Total    "
            elif c == 'ugid':
                s += "%5d file " % len(hs) if len(hs) == 1 else "%5d files" % len(hs)
            elif c == 'packed':
                s += "%7d" % tp
            elif c == 'size':
                s += "%7d" % ts
            elif c == 'ratio':
                s += "******" if ts == 0 else "%5.1f%%" % pct(tp, ts)
            elif c == 'stamp':
                s += stamp(mtime, now)
            elif c == 'fstamp':
                s += fullstamp(mtime)
            elif i + 1 < len(fc):
                s += ' ' * len(COLS[c][0])
            if COLS[c][1] and i + 1 < len(fc):
                s += ' '
        out += (s + '\n').encode()
    return out


def glob_match(pat, s):
    """'*' any run, '?' exactly one character, everything else literal; case-sensitive; whole-string match.
    (Set-of-positions simulation: linear in len(pat) * len(s), whatever the number of stars.)"""
    cur = {0}                       # positions in s reachable after the pattern so far
    n = len(s)
    for c in pat:
        if not cur:
            return False
        if c == 0x2a:
            cur = set(range(min(cur), n + 1))
        elif c == 0x3f:
            cur = {k + 1 for k in cur if k < n}
        else:
            cur = {k + 1 for k in cur if k < n and s[k] == c}
    return n in cur


def glob_from(rnd, nm, stars=4):
    """A wildcard derived from the name nm: characters kept, replaced by '?', runs replaced by '*', several stars in a row,
    stars next to '?', an occasional wrong character.  Whether it matches nm (or anything else) is for glob_match to say.
    Bytes that cannot travel through a command line unchanged become '?'.  At most four stars per wildcard and 60 characters
    of the name: a backtracking matcher needs about len^stars steps to say no, and this is about shapes, not running time."""
    out = b''
    i = 0
    while i < len(nm):
        c = nm[i]
        r = rnd.random()
        if i >= 60:
            if stars:
                out += b'*'
                stars -= 1
            else:
                out += b'?' * (len(nm) - i)
            break
        if not (0x20 < c < 0x7f) or c in b'*?\\':
            out += b'?'
            i += 1
            continue
        if r >= 0.72 and r < 0.97:
            g = b'*' if r < 0.85 else rnd.choice([b'**', b'***', b'*?*', b'?*', b'*?', b'**?'])
            if g.count(b'*') <= stars:
                stars -= g.count(b'*')
                out += g
                i += rnd.randrange(0, 4)
                continue
            r = 0.0
        if r < 0.62:
            out += bytes([c])
        elif r < 0.72:
            out += b'?'
        else:
            out += b'x' if c != 0x78 else b'y'
        i += 1
    if stars and rnd.random() < 0.15:
        out += b'*'
        stars -= 1
    if stars and rnd.random() < 0.1 and not out.startswith(b'*'):
        out = b'*' + out
    return out or b'*'


def parse_hdr(path):
    """rows from a corpus '<archive>-hdr.txt' (output of the repo's dump-headers tool)"""
    hs = []
    h = {}
    for line in open(path, 'rb').read().split(b'\n'):
        if line == b'--':
            hs.append(h)
            h = {}
            continue
        if b': ' not in line:
            continue
        k, v = line.split(b': ', 1)
        k = k.decode()
        if k in ('path', 'filename'):
            h[k] = v
        elif k == 'symlink_target':
            h['symlink'] = v
        elif k == 'compress_method':
            h['method'] = v
        elif k == 'compressed_length':
            h['packed'] = int(v)
        elif k == 'length':
            h['size'] = int(v)
        elif k == 'header_level':
            h['level'] = int(v)
        elif k == 'os_type':
            h['os'] = int(v.split()[0])
        elif k == 'crc':
            h['crc'] = int(v, 16)
        elif k == 'timestamp':
            h['time'] = int(v) & 0xffffffff
        elif k == 'unix_perms':
            h['perms'] = int(v, 8)
            h['flags'] = h.get('flags', 0) | F_PERMS
        elif k == 'os9_perms':
            h['os9'] = int(v, 8)
            h['flags'] = h.get('flags', 0) | F_OS9
        elif k == 'unix_uid':
            h['uid'] = int(v)
            h['flags'] = h.get('flags', 0) | F_UIDGID
        elif k == 'unix_gid':
            h['gid'] = int(v)
    for h in hs:
        h.setdefault('time', 0)
        h.setdefault('flags', 0)
    return hs
