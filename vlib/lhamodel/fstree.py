"""Model of what extracting an archive must leave on disk (C06) and generator of archived trees.

Entries are produced in the order archivers write them: each directory entry immediately followed by its contents.
An entry: dict(kind='dir'|'file'|'link', path=bytes (relative, '/'-separated, dirs end in '/'), level, mtime, perms or None,
               data (files), method (files), target (links), mac=None|dict(data_fork, res_fork, name_ok, len_ok))"""
import struct
from . import header as H
from .crc16 import crc16

MAC_TIME_OFFSET = 2082844800


def macbinary_wrap(name, data_fork, res_fork, mtime, name_ok=True, len_ok=True):
    """MacBinary envelope as MacLHA adds it (128-byte header, both forks, zero padding to a multiple of 128)."""
    hdr = bytearray(128)
    # near-miss names: a longer one, or a proper prefix of the archived name
    nm = name if name_ok else (name + b'.bin' if (len(name) < 2 or mtime % 4 < 2) else name[:-1])
    hdr[1] = len(nm)
    hdr[2:2 + len(nm)] = nm
    hdr[0x41:0x45] = b'TEXT'
    hdr[0x45:0x49] = b'ttxt'
    struct.pack_into('>I', hdr, 0x53, len(data_fork))
    struct.pack_into('>I', hdr, 0x57, len(res_fork))
    struct.pack_into('>I', hdr, 0x5b, (mtime + MAC_TIME_OFFSET) & 0xffffffff)
    struct.pack_into('>I', hdr, 0x5f, (mtime + MAC_TIME_OFFSET) & 0xffffffff)
    body = bytes(hdr) + data_fork + res_fork
    pad = (-len(body)) % 128
    body += bytes(pad)
    if not len_ok:
        body += bytes(128)            # declared/actual length no longer matches the fork lengths rounded up
    return body


def mac_expected(e):
    """what a MacLHA member extracts to"""
    m = e['mac']
    if m['name_ok'] and m['len_ok']:
        return m['data_fork'] if len(m['data_fork']) > 0 else m['res_fork']
    return e['stream']         # near-miss envelope: it is an ordinary file whose contents happen to look like MacBinary


def is_dangerous(t):
    return t.startswith(b'/') or any(c == b'..' for c in t.split(b'/'))


def gen_tree(rnd, methods, maxdepth=4, mac=True):
    """-> list of entries in directory-first contiguous order"""
    out = []
    used = set()

    def uniq(base, parent):
        k = 0
        nm = base
        while parent + nm in used:
            k += 1
            nm = base + b'%d' % k
        used.add(parent + nm)
        return nm

    def mtime():
        t = rnd.randrange(315532800 + 86400, 2114380800)      # 1980 .. 2037
        if rnd.random() < 0.15:
            # the time fields are unsigned 32-bit: 2038-01-19 .. 2106 (0x80000000 and up), with the boundary itself now and then
            t = rnd.choice([0x7ffffffe, 0x80000000, 0x80000002, rnd.randrange(0x80000000, 0xfffffff0)])
        return t & ~1                                         # even seconds: representable in MS-DOS time too

    def fill(parent, depth):
        n = rnd.choice([0, 1, 2, 3, 5]) if depth else rnd.randrange(2, 6)
        for _ in range(n):
            r = rnd.random()
            if r < 0.28 and depth < maxdepth:
                nm = uniq(rnd.choice([b'ab', b'abc', b'dir', b'x', b'Sub Dir', b'a.b']), parent)
                d = parent + nm + b'/'
                out.append(dict(kind='dir', path=d, level=rnd.randrange(4), mtime=mtime(),
                                perms=rnd.choice([0o40555, 0o40500, 0o40700, 0o40755, 0o40755, None, 0o41777, 0o42775, 0o41755, 0o43777])))
                fill(d, depth + 1)
            elif r < 0.40:
                nm = uniq(rnd.choice([b'lnk', b'l', b'link-with-long-name']), parent)
                tgt = rnd.choice([b'target', b'sub/target', b'a.txt', b'../up', b'/abs/olute', b'x/../..', b'./same'])
                out.append(dict(kind='link', path=parent + nm, level=rnd.randrange(4), mtime=mtime(), target=tgt, perms=0o120777))
            else:
                nm = uniq(rnd.choice([b'file', b'a.txt', b'README', b'data.bin', b'empty', b'UPPER.TXT', b'sp ace']), parent)
                meth = rnd.choice(methods)
                size = rnd.choice([0, 0, 1, 10, 200, 3000])
                e = dict(kind='file', path=parent + nm, level=rnd.randrange(4), mtime=mtime(), method=meth, size=size,
                         perms=rnd.choice([0o100644, 0o100600, 0o100755, 0o100444, 0o104755, None, 0o102755, 0o106711]), mac=None)
                if mac and rnd.random() < 0.12:
                    df = bytes(rnd.randrange(256) for _ in range(rnd.choice([0, 5, 300])))
                    rf = bytes(rnd.randrange(256) for _ in range(rnd.choice([0, 7, 130])))
                    # both forks empty is legitimate too: an empty file archived in Mac mode is exactly one 128-byte envelope
                    e['mac'] = dict(data_fork=df, res_fork=rf, name_ok=rnd.random() < 0.8, len_ok=rnd.random() < 0.85)
                    if e['mtime'] >= 0x7ffffff0:
                        # a MacBinary envelope carries the same time as a 32-bit count from 1904, which ends in 2040: such a member
                        # cannot exist, and an envelope whose time does not match is (rightly) not taken for one
                        e['mtime'] = 1000000000 + 2 * rnd.randrange(100000)
                out.append(e)
    fill(b'', 0)
    return out


def mac_plain_tree(rnd, methods):
    """Directed: members of a Mac archive (OS type 'm') that carry NO MacBinary envelope, of every size around the 128-byte
    envelope, for several methods.  The reader passes them through its MacBinary probe unchanged."""
    out = [dict(kind='dir', path=b'mac/', level=2, mtime=1000000000, perms=0o40755)]
    k = 0
    for size in (0, 1, 127, 128, 129, 255, 256, 257, 384, 1000):
        for meth in methods:
            k += 1
            out.append(dict(kind='file', path=b'mac/f%d_%d' % (size, k), level=1 + k % 3, mtime=1000000000 + k, method=meth, size=size, perms=0o100644,
                            mac=None, force_mac_plain=True))
    return out


def to_members(entries, rnd, arcmod, streams):
    """entries -> list of arc.Member (and fills e['plain'] / e['stream'] for files)"""
    ms = []
    for e in entries:
        lvl = e['level']
        i = e['path'].rstrip(b'/').rfind(b'/')
        parent, base = (e['path'][:i + 1], e['path'][i + 1:]) if i >= 0 else (b'', e['path'])
        if e['kind'] == 'dir':
            ms.append(arcmod.dir_member(e['path'], level=lvl, mtime=e['mtime'], perms=e['perms']))
        elif e['kind'] == 'link':
            ms.append(arcmod.symlink_member(e['path'], e['target'], level=lvl, mtime=e['mtime']))
        else:
            meth = e['method']
            if e['mac']:
                stream = macbinary_wrap(base, e['mac']['data_fork'], e['mac']['res_fork'], e['mtime'], e['mac']['name_ok'], e['mac']['len_ok'])
                e['stream'] = stream
                # the member's (compressed) payload must decode to `stream`: use a stored method for Mac members
                m = H.simple_member(base, stream, level=lvl if lvl else 1, method=b'-lh0-', os_type=ord('m'), mtime=e['mtime'],
                                    perms=e['perms'], path=parent)
                ms.append(arcmod.Member(m, stream, stream))
                e['plain'] = mac_expected(e)
                e['level'] = m['level']
                continue
            kw = {}
            size = e['size']
            if meth != '-lk7-' and lvl >= 1 and (rnd.random() < 0.15 or e.get('force_mac_plain')):
                kw['os_type'] = ord('m')        # a member of a Mac archive that carries no MacBinary envelope (also shorter than one)
                if e.get('force_mac_plain') is None and rnd.random() < 0.6:
                    size = rnd.choice([0, 1, 127, 128, 129, 255, 256, 257, 384])     # around the size of an envelope
            x = arcmod.file_member(rnd, meth, base, size=size, level=lvl, path=parent, mtime=e['mtime'], perms=e['perms'], **kw)
            e['plain'] = x.plain
            ms.append(x)
    return ms


def expected_tree(entries, prefix=b'', flatten=False, selected=None):
    """{path: (type, payload, mode or None, mtime or None)}; directories that hold a dangerous link get mtime None."""
    exp = {}
    danger_dirs = set()
    for k, e in enumerate(entries):
        if selected is not None and k not in selected:
            continue
        p = e['path']
        if flatten:
            if e['kind'] == 'dir':
                continue
            p = p.rsplit(b'/', 1)[-1]
        p = prefix + p
        if e['kind'] == 'dir':
            exp[p.rstrip(b'/')] = ['dir', None, (e['perms'] & 0o7777) if e['perms'] is not None else None, e['mtime']]
        elif e['kind'] == 'file':
            exp[p] = ['file', e['plain'], (e['perms'] & 0o7777) if e['perms'] is not None else None, e['mtime']]
        else:
            if is_dangerous(e['target']):
                i = p.rfind(b'/')
                danger_dirs.add(p[:i] if i >= 0 else b'')
                exp[p] = ['dangerous-link', e['target'], None, None]
            else:
                exp[p] = ['link', e['target'], None, None]
    for d in danger_dirs:
        # every ancestor's timestamp may be disturbed? no: only the directory that holds the link
        if d in exp and exp[d][0] == 'dir':
            exp[d][3] = None
    return exp
