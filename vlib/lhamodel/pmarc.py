"""PMarc -pm2- and -pm1- serialisers (from the format description; validated prototypes).

Byte values are coded as positions in a move-to-front list of all 256 values (PMarc start
order); *every* output byte, copied ones included, moves to the front.
-pm2-: 1 discarded bit, code tree (5-bit count, 3-bit min length, 3-bit width, entries), offset
tree of 5/6/7/8 3-bit lengths; tables are re-read when the output position reaches 1024, 2048,
4096, 8192 and every 4096 thereafter - at that exact byte, even in the middle of a copy.
-pm1-: 5-bit start header selecting one of 32 fixed prefix codes over six byte classes; commands
are copy (flag 0) or byte block (flag 1, length 1..216, followed by a mandatory copy unless the
block is 216 long); copy-type code and distance widths depend on the output position."""
import re
from .bits import BitWriter
from .lz import kraft_lengths, canonical

HIST = [(0, 3), (8, 3), (16, 4), (32, 5), (64, 5), (96, 5), (128, 6), (192, 6)]
COPY = [(17, 3), (25, 3), (33, 5), (65, 6), (129, 7), (256, 0)]
THRESH = [1024, 2048, 4096] + list(range(8192, 1 << 22, 4096))


def mtf_init():
    return (list(range(0x20, 0x80)) + list(range(0, 0x20)) + list(range(0xa0, 0xe0))
            + list(range(0x80, 0xa0)) + list(range(0xe0, 0x100)))


def hist_class(p):
    for c, (o, b) in enumerate(HIST):
        if o <= p < o + (1 << b):
            return c, p - o, b


def copy_class(n):
    if n <= 16:
        return n - 2, 0, 0
    for i, (o, b) in enumerate(COPY):
        if o <= n < o + (1 << b) or (b == 0 and n == o):
            return 15 + i, n - o, b


def off_class(d0):
    if d0 < 64:
        return 0, d0, 6
    b = d0.bit_length() - 1
    return b - 5, d0 - (1 << b), b


def expand_pm(cmds, fill=0x20):
    """('B', value) | ('C', distance, length).  A -pm2- copy may reach back before the first output byte: like the rest of
    the LHA family its window starts filled with spaces (the -pm1- generator never produces such copies)."""
    out = bytearray()
    for c in cmds:
        if c[0] == 'B':
            out.append(c[1])
        else:
            for _ in range(c[2]):
                p = len(out) - c[1]
                out.append(out[p] if p >= 0 else fill)
    return bytes(out)


# ------------------------------------------------------------------ pm2

def pm2_gen(rnd, target, mtf_directed=False, prefill=False):
    """prefill=True also issues copies that reach back before the start of the output (into the space-filled window)."""
    cmds, out = [], bytearray()
    if mtf_directed:
        # touch every MTF position 255..0 once (values chosen by position in the evolving list)
        mtf = mtf_init()
        for p in list(range(255, -1, -1)) + list(range(0, 256, 7)):
            v = mtf[p]
            cmds.append(('B', v))
            out.append(v)
            mtf.pop(p)
            mtf.insert(0, v)
    while len(out) < target:
        if (out or prefill) and rnd.random() < 0.4:
            n = rnd.choice([2, 3, 16, 17, 24, 25, 32, 33, 64, 65, 128, 129, 255, 256, rnd.randrange(2, 257)])
            # the offset tree has 5/6/7/8 entries in the successive stages, so the encodable distance grows with the output position
            stage_lim = 1024 if len(out) < 1024 else 2048 if len(out) < 2048 else 4096 if len(out) < 4096 else 8192
            maxd = stage_lim if (prefill and rnd.random() < 0.5) else max(1, min(len(out), stage_lim))
            if n == 2:
                maxd = min(maxd, 64)
            if n == 256:
                d = 1
            else:
                d = rnd.choice([1, maxd, rnd.randrange(1, maxd + 1),
                                min(maxd, rnd.choice([64, 65, 128, 1024, 2048, 4096, 8191, 8192]))])
            d = min(d, maxd)
            cmds.append(('C', d, n))
            for _ in range(n):
                q = len(out) - d
                out.append(out[q] if q >= 0 else 0x20)
        else:
            v = rnd.randrange(256) if rnd.random() < 0.5 else rnd.choice(b' etaoin\n')
            cmds.append(('B', v))
            out.append(v)
    return cmds


FORCE_NC = None        # directed cases: declare exactly this many code-table entries whenever the used codes allow it


def _pm2_code_tree(bw, rnd, used, feat):
    if len(used) == 1:
        bw.put(used[0] + 1, 5)
        bw.put(0, 3)
        feat.add('code-single')
        nc = used[0] + 1
        return {used[0]: (0, 0)}, (nc >= 10 and nc != 29)
    while True:
        L = kraft_lengths(rnd, len(used), 12)
        mn = min(L)
        if mn <= 7 and max(L) - mn + 1 <= 127:
            break
    lens = dict(zip(used, L))
    nc = max(used) + 1
    if rnd.random() < 0.3:
        # the 5-bit count goes up to 31: entries 29 and 30 have no meaning as commands, but declared *unused* (length 0) they are
        # simply a longer spelling of the same code
        nc = rnd.choice([rnd.randrange(nc, 32), rnd.randrange(nc, 32), rnd.choice([29, 30, 31])] + [v for v in (9, 10, 11) if v >= nc])
        feat.add('code-count-%s' % ('30-31' if nc >= 30 else 'upto29'))
    if FORCE_NC is not None and FORCE_NC >= max(used) + 1:
        nc = FORCE_NC
        feat.add('code-count-forced-%d' % nc)
    minl = rnd.randrange(1, mn + 1)
    lb = (max(L) - minl + 1).bit_length()
    if rnd.random() < 0.3:
        lb = rnd.randrange(lb, 8)
    bw.put(nc, 5)
    bw.put(minl, 3)
    bw.put(lb, 3)
    for i in range(nc):
        bw.put(lens[i] - minl + 1 if i in lens else 0, lb)
    feat.add('code-lb%d' % lb)
    feat.add('code-min%d' % minl)
    return canonical(lens), nc >= 10


def _pm2_off_tree(bw, rnd, used, num, feat):
    if len(used) == 0:
        for _ in range(num):
            bw.put(0, 3)
        feat.add('off-empty')
        return {}
    if len(used) == 1:
        for i in range(num):
            bw.put(rnd.randrange(1, 8) if i == used[0] else 0, 3)
        feat.add('off-single')
        return {used[0]: (0, 0)}
    lens = dict(zip(used, kraft_lengths(rnd, len(used), 7)))
    for i in range(num):
        bw.put(lens.get(i, 0), 3)
    feat.add('off-multi%d' % num)
    return canonical(lens)


def pm2_serialise(cmds, rnd, feat=None, omit_final_reread=False):
    feat = feat if feat is not None else set()
    mtf = mtf_init()
    pos = 0
    info = []
    outb = bytearray()

    def stage(p):
        s = 0
        while p >= THRESH[s]:
            s += 1
        return s
    for c in cmds:
        st = stage(pos)
        if c[0] == 'B':
            p = mtf.index(c[1])
            cls, x, b = hist_class(p)
            info.append((st, cls, None, [(x, b)]))
            feat.add('hist%d' % cls)
            mtf.pop(p)
            mtf.insert(0, c[1])
            pos += 1
            outb.append(c[1])
        else:
            _, d, n = c
            cc, x, b = copy_class(n)
            if n == 256 and d == 1 and rnd.random() < 0.5:
                cc, x, b = 20, 0, 0          # 256 has two encodings: 129+127 and the unique code
            extra = [(x, b)] if b else []
            if cc == 0:
                osym = None
                extra.append((d - 1, 6))
            elif cc < 20:
                osym, ox, ob = off_class(d - 1)
                extra.append(('OFF', osym))
                extra.append((ox, ob))
                feat.add('offw%d' % ob)
            else:
                osym = None
            feat.add('copy%d' % cc)
            info.append((st, 8 + cc, osym, extra))
            pos += n
            for _ in range(n):
                q = len(outb) - d
                v = outb[q] if q >= 0 else 0x20
                outb.append(v)
                mtf.remove(v)
                mtf.insert(0, v)
    nst = stage(pos) + 1
    flags = {s: rnd.random() < 0.6 for s in range(3, nst + 1)}

    def code_segid(s):
        if s < 3:
            return 0
        k = s
        while k >= 3 and not flags[k]:
            k -= 1
        return k if k >= 3 else 0

    def off_segid(s):
        if s <= 3:
            return s
        k = s
        while k > 3 and not flags[k]:
            k -= 1
        return k
    code_seg, off_seg = {}, {}
    for st, sym, osym, _ in info:
        code_seg.setdefault(code_segid(st), set()).add(sym)
        if osym is not None:
            off_seg.setdefault(off_segid(st), set()).add(osym)
    bw = BitWriter()
    bw.put(rnd.randrange(2), 1)
    tables, need = {}, {}

    def emit_code(seg):
        t0 = bw.total
        used = sorted(code_seg.get(seg, {rnd.randrange(8)}))
        ct, nd = _pm2_code_tree(bw, rnd, used, feat)
        tables['c'] = ct
        need['v'] = nd
        bw.mark('code', t0)

    def emit_off(seg, num):
        if need['v']:
            t0 = bw.total
            tables['o'] = _pm2_off_tree(bw, rnd, sorted(off_seg.get(seg, [])), num, feat)
            bw.mark('off', t0)
    emit_code(0)
    emit_off(0, 5)
    pos = 0
    cur = 0

    def crossed(s):
        if s == 1:
            emit_off(1, 6)
        elif s == 2:
            emit_off(2, 7)
        elif s == 3:
            bw.put(1 if flags[3] else 0, 1)
            if flags[3]:
                emit_code(3)
            emit_off(3, 8)
        else:
            bw.put(1 if flags[s] else 0, 1)
            if flags[s]:
                emit_code(s)
                emit_off(s, 8)
            feat.add('reread-%d' % (1 if flags[s] else 0))
        feat.add('stage%d' % min(s, 6))
    ncmd = len(cmds)
    for ci, (c, (st, sym, osym, extra)) in enumerate(zip(cmds, info)):
        bw.putcode(tables['c'][sym])
        for e in extra:
            if e[0] == 'OFF':
                bw.putcode(tables['o'][e[1]])
            else:
                bw.put(e[0], e[1])
        n = 1 if c[0] == 'B' else c[2]
        for k in range(n):
            pos += 1
            if pos == THRESH[cur]:
                cur += 1
                if omit_final_reread and ci == ncmd - 1 and k == n - 1:
                    # the output ends exactly on a re-read point: nothing follows, so the stream may end here without the tables
                    # that the decoder would (try to) read next
                    feat.add('ends-on-reread-point')
                    break
                crossed(cur)
                if n > 1 and k < n - 1:
                    feat.add('midcopy')
                    feat.add('midcopy-stage%d' % min(cur, 6))
    return bw.bytes(pad_bit=rnd.randrange(2)), bw.marks


# ------------------------------------------------------------------ pm1

TREES = """((((a b) c) d) (e f))
(((a b) (c f)) (d e))
(((a b) c) (d (e f)))
((a (b c)) (d (e f)))
((a (b d)) (c (e f)))
((a (b (e f))) (c d))
((a b) ((c d) (e f)))
((a b) ((c (e f)) d))
((a b) (c (d (e f))))
(a (((b f) c) (d e)))
(a (((b (e f)) c) d))
(a (((b c) d) (e f)))
(a ((b (c f)) (d e)))
(a ((b c) (d (e f))))
(a ((b (d (e f))) c))
(a (b ((c d) (e f))))
(a (b (c (d (e f)))))
(((d e) c) (d e))
((a (b e)) (c d))
((a b) (c (d e)))
(a (((b e) c) d))
(a ((b c) (d e)))
(a ((b (d e)) c))
(a (b (c (d e))))
(((a b) c) d)
((a (b d)) c)
((a b) (c d))
(a ((b d) c))
(a (b (c d)))
(a (b c))
(a b)""".split('\n')


def _parse(s):
    toks = re.findall(r'[()]|[a-f]', s)
    pos = 0

    def node():
        nonlocal pos
        t = toks[pos]
        pos += 1
        if t == '(':
            l = node()
            r = node()
            assert toks[pos] == ')'
            pos += 1
            return (l, r)
        return t
    return node()


def _codes(t, prefix='', out=None):
    out = {} if out is None else out
    if isinstance(t, str):
        out.setdefault(t, prefix)      # first (leftmost) path wins; tree 17 has duplicate leaves
    else:
        _codes(t[0], prefix + '0', out)
        _codes(t[1], prefix + '1', out)
    return out


TREECODES = [_codes(_parse(s)) for s in TREES] + [{'a': ''}]
BYTER = [(0, 4), (16, 4), (32, 5), (64, 6), (128, 6), (192, 6)]
PM1_THRESHOLDS = [64, 320, 576, 832, 1088, 1600, 2624, 2880, 3136, 3648, 4672, 6720, 10816]


def _put_blocklen(bw, n):
    if n <= 3:
        bw.put(n - 1, 2)
    elif n <= 10:
        bw.put(3, 2); bw.put(n - 4, 3)
    elif n <= 24:
        bw.put(3, 2); bw.put(7, 3); bw.put(n - 11, 4)
    elif n <= 88:
        bw.put(3, 2); bw.put(7, 3); bw.put(14, 4); bw.put(n - 25, 6)
    else:
        bw.put(3, 2); bw.put(7, 3); bw.put(15, 4); bw.put(n - 89, 7)


def _put_copycount(bw, n):
    if n <= 5:
        bw.put(n - 3, 2)
    elif n <= 10:
        bw.put(3, 2); bw.put(n - 6, 3)
    elif n <= 14:
        bw.put(3, 2); bw.put(5, 3); bw.put(n - 11, 2)
    elif n <= 22:
        bw.put(3, 2); bw.put(6, 3); bw.put(n - 15, 3)
    elif n <= 84:
        bw.put(3, 2); bw.put(7, 3); bw.put(n - 23, 6)
    elif n <= 116:
        bw.put(3, 2); bw.put(7, 3); bw.put(62, 6); bw.put(n - 85, 5)
    else:
        bw.put(3, 2); bw.put(7, 3); bw.put(63, 6); bw.put(n - 117, 7)


def _copy_range(hd, n):
    if n == 2:
        return 0 if hd < 64 else 1
    if hd < 64:
        return 2
    if hd < 576:
        return 3
    if hd < 2624:
        return 4
    return 5


def _put_copy(bw, pos, hd, n, feat):
    r = _copy_range(hd, n)
    feat.add('range%d' % r)
    if r == 0:
        bw.put(0, 1)
        if pos >= 576:
            bw.put(0, 1)
        if pos >= 64:
            bw.put(0, 1)
    elif r == 1:
        assert pos >= 64
        bw.put(0, 1)
        if pos >= 576:
            bw.put(0, 1)
        bw.put(1, 1)
    elif r == 4:
        assert pos >= 576
        bw.put(0, 1); bw.put(1, 1)
    elif r == 3:
        assert pos >= 64
        bw.put(1, 1); bw.put(0, 1)
    elif r == 2:
        bw.put(1, 1)
        if pos >= 64:
            bw.put(1, 1)
        if pos >= 2624:
            bw.put(1, 1)
    else:
        assert pos >= 2624
        bw.put(1, 1); bw.put(1, 1); bw.put(0, 1)
    if r >= 2:
        _put_copycount(bw, n)
    if r in (0, 2):
        base, w = 0, 6
    elif r == 1:
        base, w = 64, 8
    elif r == 3:
        base, w = 64, (8 if pos < 320 else 9)
    elif r == 4:
        base, w = 576, (8 if pos < 832 else 9 if pos < 1088 else 10 if pos < 1600 else 11)
    else:
        base, w = 2624, (8 if pos < 2880 else 9 if pos < 3136 else 10 if pos < 3648 else
                         11 if pos < 4672 else 12 if pos < 6720 else 13)
    assert 0 <= hd - base < (1 << w), (hd, base, w, pos)
    feat.add('w%d_%d' % (r, w))
    bw.put(hd - base, w)


def pm1_max_hd(pos, n):
    """Largest history distance (0-based) encodable at output position pos for a copy of n bytes."""
    if n == 2:
        lim = 63 if pos < 64 else 319
    elif pos < 64:
        lim = 63
    elif pos < 320:
        lim = 64 + 255
    elif pos < 576:
        lim = 575
    elif pos < 832:
        lim = 576 + 255
    elif pos < 1088:
        lim = 576 + 511
    elif pos < 1600:
        lim = 576 + 1023
    elif pos < 2624:
        lim = 2623
    elif pos < 2880:
        lim = 2624 + 255
    elif pos < 3136:
        lim = 2624 + 511
    elif pos < 3648:
        lim = 2624 + 1023
    elif pos < 4672:
        lim = 2624 + 2047
    elif pos < 6720:
        lim = 2624 + 4095
    else:
        lim = 10815
    return min(lim, pos - 1)


def pm1_gen_and_serialise(rnd, tree, target, feat=None, near_threshold=None, near_k=None, near_top=None):
    """-> (stream, expected output).  Copies only from produced data."""
    feat = feat if feat is not None else set()
    bw = BitWriter()
    bw.put(tree, 5)
    tc = TREECODES[tree]
    out = bytearray()
    mtf = mtf_init()
    reach = ['abcdef'.index(k) for k in tc]

    def emit_byte():
        cls = rnd.choice(reach)
        base, w = BYTER[cls]
        p = base + rnd.randrange(1 << w)
        if rnd.random() < 0.5 and 0 in reach:
            p = rnd.randrange(4)
        cls = next(i for i, (b, w) in enumerate(BYTER) if b <= p < b + (1 << w))
        v = mtf[p]
        for ch in tc['abcdef'[cls]]:
            bw.put(int(ch), 1)
        b, w = BYTER[cls]
        bw.put(p - b, w)
        mtf.pop(p)
        mtf.insert(0, v)
        out.append(v)
        feat.add('byteclass%d' % cls)

    def emit_copy(n=None, top=False):
        pos = len(out)
        if n is None:
            n = rnd.choice([2, 2, 3, 5, 6, 10, 11, 14, 15, 22, 23, 84, 85, 116, 117, 244, rnd.randrange(2, 245)])
        maxhd = pm1_max_hd(pos, n)
        hd = rnd.choice([0, maxhd, rnd.randrange(maxhd + 1), min(maxhd, rnd.choice([63, 64, 319, 320, 575, 576, 2623, 2624]))])
        if top:
            hd = maxhd
            for t in PM1_THRESHOLDS:
                if pos in (t - 1, t):
                    feat.add('top-at-%d%s' % (t, '' if pos == t else '-1'))
        _put_copy(bw, pos, hd, n, feat)
        for t in PM1_THRESHOLDS:
            if pos < t <= pos + n:
                feat.add('cross-%d' % t)
            if pos in (t - 1, t):
                feat.add('at-%d' % t)
        for _ in range(n):
            v = out[len(out) - hd - 1]
            out.append(v)
            mtf.remove(v)
            mtf.insert(0, v)
    while len(out) < target:
        if near_threshold is not None and len(out) < near_threshold - 2:
            # steer so that a copy command is issued at output position threshold-k, k in 0..2
            gap = near_threshold - len(out)
            k = rnd.choice([0, 1, 2]) if near_k is None else near_k
            bw.put(1, 1)
            if gap - k > 215:
                bl = 216
            else:
                bl = max(1, gap - k)
            _put_blocklen(bw, bl)
            feat.add('blocklen-%s' % (bl if bl in (1, 3, 4, 10, 11, 24, 25, 88, 89, 215, 216) else 'other'))
            for _ in range(bl):
                emit_byte()
            if bl < 216:
                top = (rnd.random() < 0.5) if near_top is None else near_top
                emit_copy(rnd.choice([3, 6, 23]) if top else rnd.choice([2, 3, 6, 23]), top=top and len(out) >= near_threshold - 2)
            continue
        if out and rnd.random() < 0.3:
            bw.put(0, 1)
            emit_copy()
        else:
            bw.put(1, 1)
            bl = rnd.choice([1, 3, 4, 10, 11, 24, 25, 88, 89, 215, 216, rnd.randrange(1, 217)])
            _put_blocklen(bw, bl)
            feat.add('blocklen-%s' % (bl if bl in (1, 3, 4, 10, 11, 24, 25, 88, 89, 215, 216) else 'other'))
            for _ in range(bl):
                emit_byte()
            if bl < 216:
                if len(out) >= target and rnd.random() < 0.5:
                    feat.add('end-in-block')
                    break
                emit_copy()
    return bw.bytes(pad_bit=0), bytes(out)
