"""One front door to the per-method serialisers: valid_stream(rnd, method, size) -> (compressed, plain, marks)."""
from .lhamodel import lhnew, lzhuf, larc, pmarc
from .lhamodel.lz import expand

ALL_METHODS = ['-lh0-', '-lz4-', '-pm0-', '-lzs-', '-lz5-', '-lh1-', '-lh4-', '-lh5-', '-lh6-', '-lh7-', '-lhx-', '-lk7-',
               '-pm1-', '-pm2-']
STORED = ('-lh0-', '-lz4-', '-pm0-')
# progress-callback block sizes as the methods define them (used only to size workloads, never as an oracle)
BLOCK = {'-lh0-': 2048, '-lz4-': 2048, '-pm0-': 2048, '-lzs-': 2048, '-lz5-': 4096, '-lh1-': 4096, '-lh4-': 4096,
         '-lh5-': 8192, '-lh6-': 32768, '-lh7-': 65536, '-lhx-': 524288, '-lk7-': 32768, '-pm1-': 2048, '-pm2-': 8192}


def valid_stream(rnd, method, size=200):
    """A well-formed stream of roughly `size` commands and the bytes it denotes."""
    if method in STORED:
        data = bytes(rnd.randrange(256) for _ in range(size))
        return data, data, []
    if method in lhnew.METHODS:
        cmds = lhnew.gen_cmds(rnd, method, max(1, size))
        s, marks = lhnew.serialise(method, cmds, rnd)
        return s, expand(cmds), marks
    if method == '-lh1-':
        cmds = []
        out = 0
        for _ in range(max(1, size)):
            if rnd.random() < 0.3:
                n = rnd.randrange(3, 61)
                cmds.append(('C', rnd.choice([1, 4096, rnd.randrange(1, 4097)]), n))
            else:
                cmds.append(('L', rnd.choice(b'abc \n') if rnd.random() < 0.7 else rnd.randrange(256)))
        s, _ = lzhuf.encode(cmds, pad_bit=rnd.randrange(2))
        return s, expand(cmds), []
    if method == '-lz5-':
        cmds = larc.gen_cmds(rnd, method, max(1, size))
        return larc.serialise_lz5(cmds, rnd), larc.expand_lz5(cmds), []
    if method == '-lzs-':
        cmds = larc.gen_cmds(rnd, method, max(1, size))
        return larc.serialise_lzs(cmds, rnd), larc.expand_lzs(cmds), []
    if method == '-pm2-':
        cmds = pmarc.pm2_gen(rnd, max(1, size))
        s, marks = pmarc.pm2_serialise(cmds, rnd)
        return s, pmarc.expand_pm(cmds), marks
    if method == '-pm1-':
        s, exp = pmarc.pm1_gen_and_serialise(rnd, rnd.randrange(32), max(1, size))
        return s, exp, []
    raise ValueError(method)


def small_plain_stream(rnd, method, plain_len):
    """A valid stream whose output is at least plain_len bytes (trimmed by the declared length)."""
    tries = 0
    while True:
        s, p, m = valid_stream(rnd, method, max(1, plain_len))
        if len(p) >= plain_len:
            return s, p[:plain_len] if method not in STORED else p[:plain_len], m
        tries += 1
        if tries > 50:
            raise RuntimeError('cannot make %s stream of %d bytes' % (method, plain_len))
