#!/usr/bin/env python3
"""Regenerates /verif/MANIFEST.json from the table below and validates it against the schema."""
import json, os, sys
HERE = os.path.dirname(os.path.dirname(os.path.abspath(__file__)))

CHECKS = {
    'C01': dict(level='exploration', technique='runtime differential monitor: real decoder output vs LZ77 expansion of generated command lists (reference serialiser), ASan/UBSan-bounds build, tree-invariant hook',
                text='Generated command lists are serialised by an independent model of the format (every table form, block partition, distance/length extreme; required shapes are asserted to have been reached) and the bytes returned by lha_decoder_read are compared with the LZ77 expansion. Held = no mismatch on the streams this run produced.',
                note='Trusts vlib/lhamodel/lhnew.py as the reading of the format (it agrees with lhasa, which agrees with real encoders in the repo suite). Finite sample of an infinite stream space.',
                design='4/C01'),
    'C02': dict(level='exploration', technique='runtime differential monitor: published LZHUF reference encoder vs lhasa -lh1- decoder over long streams with many tree rebuilds and tie exchanges',
                text='The classic LZHUF encoder (different formulation from lhasa\'s group-leader decoder) encodes generated symbol streams; any divergence of the two adaptive trees corrupts all later output, so byte equality over streams with dozens of rebuilds is a sensitive observer of lock-step.',
                note='Lock-step observed through output only; bounded stream lengths (quick: up to 300k symbols, thorough: 1.2M).',
                design='4/C02'),
    'C03': dict(level='exploration', technique='runtime differential monitor with exhaustive single-copy probes of both LArc rings, ring models from the format description',
                text='Every (position, length) pair as first copy command is executed for -lz5- (65536) and -lzs- (32768), which reads the whole initial ring through every seam; plus directed overlap/flag-byte cases, random streams and grids for the stored methods.',
                note='Exhaustive only for the single-copy sub-space; longer histories sampled.',
                design='4/C03'),
    'C04': dict(level='exploration', technique='runtime differential monitor: pm1/pm2 serialiser models (MTF list, table re-read schedule, position-dependent copy codes) vs real decoders; table-index and tree-row hooks',
                text='All 32 pm1 start trees, copies steered to both sides of every position threshold, pm2 table re-reads at every stage including mid-copy; required shapes asserted reached.',
                note='No real -pm1- encoder exists; the model is a reading of the format. Copies only from produced data.',
                design='4/C04'),
    'C05': dict(level='exploration', technique='runtime differential monitor: header encoder + field normaliser model vs fields returned by lha_reader_next_file, sentinel member for header length, two time zones',
                text='Generated headers of all levels (field extremes, every subset of the ten extended-header types up to a bound in every order, level-0 areas, symlinks, quirks) are parsed by the real reader and every returned field, the first data bytes and the following member are compared with the model.',
                note='Trusts vlib/lhamodel/header.py as the reading of the format (validated against lhasa and, through lhasa, the recorded corpus). NUL-free names only.',
                design='4/C05'),
    'C06': dict(level='exploration', technique='runtime differential monitor on the filesystem: real tool run as an unprivileged user under an LD_PRELOAD fs guard, resulting tree walked and compared with an executable tree model; library policies through the reader harness',
                text='Generated trees (nested and read-only directories with children, every method, empty files, safe/dangerous links, MacLHA members with valid and near-miss MacBinary envelopes, levels 0-3) are archived directory-first and extracted with the option sets x/e/f/q0-2/v/i/w=, wildcard lists, print, and overwrite policies with scripted prompt answers; contents, permission bits, mtimes, link targets, stdout of p and exit status are compared with the model.',
                note='Ownership unobservable as nobody; set-id bits are left to OS policy; dangerous links and the mtime of their directories are outside the guarantee (existence is demanded only when the directory is still writable).',
                design='4/C06'),
    'C07': dict(level='exploration', technique='runtime monitor of the verdict iff: bytes actually delivered + independent bitwise CRC vs verdicts of check/extract/CLI, over corrupted/truncated variants; exhaustive burst enumeration on a stored member; write-fault injection (RLIMIT_FSIZE) judged on the bytes on disk; several operations on the same member',
                text='Three independent readers per archive variant (read, check, extract) plus lha t / lha x: the verdict must equal (length and CRC-16 of the delivered bytes match the recorded ones). All bursts of span <= 16 bits at every bit offset of a stored member are enumerated in the thorough tier. Extraction under a file size limit placed in the first, a middle and the last stdio block of a member; 255/256/257/512 failing members; check/read/extract sequences on one member.',
                note='Bursts are measured in the bit order CRC-16/ARC consumes (LSB first per byte). MacBinary members excluded.',
                design='4/C07'),
    'C08': dict(level='exploration', technique='sanitizers (ASan + memory-access UBSan subset, fatal) and invariant hooks on hostile archives through seeded reader-API call patterns over five stream kinds, and through the ASan-built CLI under an fs guard',
                text='Random bytes behind planted signatures, mutated corpus/generated archives and structure-aware hostile headers (length fields at and around their limits with checksums repaired, truncated level-0 areas, MacBinary look-ahead) are driven through next/read/read-to-end/check/extract patterns and 13 CLI modes; any sanitizer report, hook violation or death by signal is a violation.',
                note='A clean run is not memory safety; only executed paths are observed. Non-memory UB (shift in decode_ftime) is outside the property and not fatal.',
                design='4/C08'),
    'C09': dict(level='exploration', technique='sanitizers (ASan + bounds-UBSan) on hostile compressed data, split-allocation driver of the per-type callbacks, invariant hooks on trees/table indices',
                text='Each decoder is fed constant fills, random bytes, corrupted valid streams (flips inside table regions), structure-aware hostile tables and exhaustive small header grids, in direct-callback mode (state and output in separate exact-size blocks) and through lha_decoder_read with exact-size buffers; hooks catch far/intra-object indexing ASan cannot.',
                note='A clean run is not memory safety; heap-layout dependent and intra-object errors outside array-typed indexing/hooks can escape.',
                design='4/C09'),
    'C10': dict(level='exploration', technique='online filesystem-operation monitor (LD_PRELOAD interposer resolving every path at call time, denying escapes) with a prefix-by-prefix trace checker; independent canary-tree snapshot oracle',
                text='All sequences of length <= 2 (thorough: sampled 3) over 25 hostile entry kinds plus random longer sequences, pre-existing symlinks at final components and mutated corpus archives are extracted by the real tool as an unprivileged user; each mutating operation must resolve inside the root, nothing but symlink creation may follow the first dangerous link, read-only commands must not mutate, and a canary tree beside the root must be unchanged.',
                note='Only libc-mediated operations of the dynamically linked tool are seen by the shim (canary is the second oracle). No pre-existing symlinks to directories on a path (stated precondition).',
                design='4/C10'),
    'C11': dict(level='exploration', technique='exhaustive in-process enumeration of hostile name/path strings through every header channel, predicate monitor on returned path/filename, ASan build',
                text='All strings over {., /, \\, 0xFF, NUL, letter} up to length 5 (quick) / 7 (thorough) are fed through 13+ header channels and 5 OS types (tens of millions of parses); the 10-line invariant is evaluated on what lha_reader_next_file returns.',
                note='Exhaustive only up to the length bound and over that alphabet; longer strings sampled.',
                design='4/C11'),
    'C12': dict(level='exploration', technique='exhaustive single-byte substitution / truncation / length-field perturbation of generated headers, independent C statement of the integrity rules as oracle',
                text='For a base set of well-formed headers every one of the 255 substitutions at every header byte, every truncation and length-field perturbation is parsed; whenever the independent rules condemn the mutant the library must return no header and iteration must end.',
                note='One-directional and only for the listed rules; base set is a sample of header shapes.',
                design='4/C12'),
    'C13': dict(level='exploration', technique='bounded-progress monitor: stream-callback step counter with deterministic budgets and hard stop, allocator monitor for peak live heap, stdio step counting (--wrap=fread,fseek) for FILE-backed kinds, CPU/wall watchdogs for the CLI incl. extraction over existing files with hostile standard input',
                text='Liveness is restated as bounded progress: every operation must finish within 2*len(A)+64*(members+1)+4*bytes_out+256 stream callbacks, deliver no more than the declared length, and keep peak library heap below 8 MiB + 2*len(A); checked on every truncation offset of generated archives, extreme length declarations, inputs around the 256 KiB scan limit, self-referential and pm1-endless streams, over 4 stream kinds x 4 operations and the CLI over files and pipes.',
                note='No finite run decides "eventually returns"; the CLI is guarded by watchdogs and a bound on bytes of messages. A watchdog firing is re-run once before it is reported; members that really produce more than 64 MiB are abandoned at that cap (work proportional so far) and CLI watchdogs on such inputs are inconclusive.',
                design='4/C13'),
    'C14': dict(level='exploration', technique='runtime monitor of the decoder API contract: split-invariance against a single maximal read, independent bitwise CRC, progress-callback sequence checker; exhaustive read compositions for short outputs; uninitialised-memory differential (same cases decoded with stack and fresh heap blocks pre-filled with two different bytes)',
                text='For every (method, stream, declared length) the bytes, reported length/CRC and callback sequence under many read schedules (all 2^(n-1) compositions for short outputs) are compared with one maximal read and an independent CRC.',
                note='Input callback delivers full requests while data remains. Schedules sampled for long outputs.',
                design='4/C14'),
    'C15': dict(level='exploration', technique='history checker against an executable sequential model of the reader (exhaustive legal op sequences to a depth bound), two-reader interleaving enumeration, ThreadSanitizer rounds with per-thread result equality; metamorphic cut-member monitor (a member whose data stops inside a command must yield the same bytes after every history, each in its own process, and under two pre-fills of uninitialised memory)',
                text='All legal operation sequences up to depth 5 (quick) / 7 (thorough) over three fixed archives x three directory policies plus random histories on generated archives are stepped beside a model of the documented reader behaviour (fake directories, deferred symlinks, sticky end); all interleavings of two short histories on two readers and 8 threads x N rounds under TSan must reproduce each reader\'s solo log.',
                note='TSan sees only instrumented code: reports whose racing access lies inside libc (mktime/tzset internal lock) are counted and ignored. Depth-bounded.',
                design='4/C15'),
    'C16': dict(level='exploration', technique='differential monitor across four input-stream kinds and generated self-extractor prefixes (exhaustive small lengths, window multiples, scan limit, marker+decoy forms), CLI file vs stdin comparison',
                text='The member list (all header fields, data, verdicts, and a list-only walk) from callbacks-with-skip on the bare archive is the reference; every other stream kind and every prefix class must reproduce it, for corpus, generated and truncated archives.',
                note='Prefix bytes come from a subset that cannot form a signature across the junction. Real pipes with a writer thread.',
                design='4/C16'),
    'C17': dict(level='exploration', technique='runtime differential monitor: library routine vs bitwise CRC-16/ARC definition, exhaustive enumeration of (state,byte) and (state,2 bytes), state-echo buffers, long and 4 GiB buffers, empty pieces, ASan on random buffers/splits',
                text='Every (16-bit state, byte) pair is executed through lha_crc16_buf and compared with the bitwise definition (exhaustive, 2^24); thorough also runs all 2^32 (state, two-byte) inputs whole and split. Because CRC is a byte-wise state machine, agreement on every single step plus split-invariance on sampled buffers is the strongest observation a run can make of this routine.',
                note='Trusts the 8-line bitwise reference (cross-checked in C and Python against the published check value 0xBB3D). Buffers longer than 2 bytes are sampled and directed (lengths on 2^k boundaries to 2^26, 2^32 and 2^32+17 in the thorough tier), not enumerated.',
                design='4/C17'),
    'C18': dict(level='exploration', technique='output-byte monitor over stdout+stderr of the real tool, with every byte value planted in every archive-derived text field (exhaustive single-byte plants)',
                text='Every byte 0x01..0xFF is planted in names, paths, link targets, user/group strings and the method field (first and later members) across levels; each archive is run through list/test/extract/dry-run/print modes and error paths; every output byte must be printable ASCII, LF, CR or TAB.',
                note='File data dumped by p is excluded as the property says (archives with planted method bytes are not judged in p mode).',
                design='4/C18'),
    'C19': dict(level='exploration', technique='runtime differential monitor: stdout of l/lv/v/vv vs a list renderer that is itself validated against 708 recorded listings of the real Unix LHA tool',
                text='Archives of generated headers (all 2^9 Unix permission words x file/dir/link, all OS-9 bytes, every OS type, timestamp and size extremes, float32 ratio boundaries, name widths, random ext-header mixes) are listed with quiet levels and wildcard lists under fixed TZ/now/mtime; output must equal the reference rendering byte for byte.',
                note='Totals are kept below 2^32. The renderer is an independent model checked against ground truth recorded in the repository.',
                design='4/C19'),
    'C20': dict(level='fault_enumeration', technique='allocator monitor (link-time wrap) with exhaustive fail-the-k-th-allocation enumeration, descriptor balance, ASan; histories truncated at every prefix',
                text='For every (archive, call history) the fault-free run counts the N allocations made by library code and the run is repeated N times with the k-th allocation failing; after reader and stream are freed no library block or descriptor may remain and the call struck by the failure must report failure/end of archive.',
                note='Only allocations made by lhasa code are injected/monitored; libc-internal ones are covered by descriptor balance and ASan.',
                design='4/C20'),
}

PENDING_REASON = 'check not built yet at this commit (work in progress; see DESIGN.md section 4 for the planned monitor)'


def main():
    props = [json.loads(l)['id'] for l in open(os.path.join(HERE, 'properties.jsonl'))]
    hooks_commits = []
    hc = os.path.join(HERE, 'hooks_commits.txt')
    if os.path.exists(hc):
        hooks_commits = [l.split()[0] for l in open(hc) if l.strip() and not l.startswith('#')]
    man = {
        'version': 1,
        'setup_cmd': 'python3 tools/setup.py',
        'hooks': {
            'guard': 'LHASA_VERIF',
            'enable': 'vlib/build.py compiles lib/*.c and src/*.c from /repo\'s working tree itself with -DLHASA_VERIF and links harness/verif_hooks.c (receivers); the autotools build is not used',
            'baseline_off_cmd': 'cd /repo && make -s >/dev/null 2>&1; make -s check',
            'source_commits': hooks_commits,
            'add_only': True,
        },
        'engines': [
            {'name': 'run', 'path': 'run', 'serves_properties': sorted(CHECKS),
             'kind_free_text': 'python driver: builds sanitizer variants of /repo, generates workloads from reference models, runs C harnesses / the CLI under monitors, decides from observed events, writes evidence'},
        ],
        'checks': [],
        'not_applicable': [],
        'notes': 'Technique family: runtime monitoring and sanitizers. Exit 0 held / 1 VIOLATION / 2 harness failure. known_findings.txt lists recorded and fixed defects.',
    }
    for p in props:
        if p in CHECKS:
            c = CHECKS[p]
            man['checks'].append({
                'property_id': p,
                'quick_cmd': './run %s --tier quick' % p,
                'thorough_cmd': './run %s --tier thorough' % p,
                'evidence_file': 'evidence/%s.json' % p,
                'replay_cmd_template': './run %s --replay {path}' % p,
                'engine': 'run',
                'level_claimed': {'category': c['level'], 'text': c['text'], 'design_ref': 'DESIGN.md section ' + c['design']},
                'level_note': c['note'],
                'technique': c['technique'],
            })
        else:
            man['not_applicable'].append({'property_id': p, 'reason': PENDING_REASON})
    out = os.path.join(HERE, 'MANIFEST.json')
    json.dump(man, open(out, 'w'), indent=1)
    try:
        import jsonschema
        jsonschema.validate(man, json.load(open('/root/.vp/MANIFEST.schema.json')))
        print('MANIFEST.json valid (%d checks, %d not_applicable)' % (len(man['checks']), len(man['not_applicable'])))
    except ImportError:
        print('MANIFEST.json written (jsonschema not importable here; not validated)')


if __name__ == '__main__':
    main()
