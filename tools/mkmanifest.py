#!/usr/bin/env python3
"""Regenerates /verif/MANIFEST.json from the table below and validates it against the schema."""
import json, os, sys
HERE = os.path.dirname(os.path.dirname(os.path.abspath(__file__)))

CHECKS = {
    'C17': dict(level='exploration', technique='runtime differential monitor: library routine vs bitwise CRC-16/ARC definition, exhaustive enumeration of (state,byte) and (state,2 bytes), ASan on random buffers/splits',
                text='Every (16-bit state, byte) pair is executed through lha_crc16_buf and compared with the bitwise definition (exhaustive, 2^24); thorough also runs all 2^32 (state, two-byte) inputs whole and split. Because CRC is a byte-wise state machine, agreement on every single step plus split-invariance on sampled buffers is the strongest observation a run can make of this routine.',
                note='Trusts the 8-line bitwise reference (cross-checked in C and Python against the published check value 0xBB3D). Buffers longer than 2 bytes are sampled, not enumerated.',
                design='4/C17'),
}

PENDING_REASON = 'check not built yet at this commit (work in progress; see DESIGN.md section 4 for the planned monitor)'


def main():
    props = [json.loads(l)['id'] for l in open(os.path.join(HERE, 'properties.jsonl'))]
    hooks_commits = []
    hc = os.path.join(HERE, 'hooks_commits.txt')
    if os.path.exists(hc):
        hooks_commits = [l.split()[0] for l in open(hc) if l.strip() and not l.startswith('#')]
    man = {
        'version': 1,
        'setup_cmd': 'python3 tools/setup.py',
        'hooks': {
            'guard': 'LHASA_VERIF',
            'enable': 'vlib/build.py compiles lib/*.c and src/*.c from /repo\'s working tree itself with -DLHASA_VERIF and links harness/verif_hooks.c (receivers); the autotools build is not used',
            'baseline_off_cmd': 'cd /repo && make -s >/dev/null 2>&1; make -s check',
            'source_commits': hooks_commits,
            'add_only': True,
        },
        'engines': [
            {'name': 'run', 'path': 'run', 'serves_properties': sorted(CHECKS),
             'kind_free_text': 'python driver: builds sanitizer variants of /repo, generates workloads from reference models, runs C harnesses / the CLI under monitors, decides from observed events, writes evidence'},
        ],
        'checks': [],
        'not_applicable': [],
        'notes': 'Technique family: runtime monitoring and sanitizers. Exit 0 held / 1 VIOLATION / 2 harness failure. known_findings.txt lists recorded and fixed defects.',
    }
    for p in props:
        if p in CHECKS:
            c = CHECKS[p]
            man['checks'].append({
                'property_id': p,
                'quick_cmd': './run %s --tier quick' % p,
                'thorough_cmd': './run %s --tier thorough' % p,
                'evidence_file': 'evidence/%s.json' % p,
                'replay_cmd_template': './run %s --replay {path}' % p,
                'engine': 'run',
                'level_claimed': {'category': c['level'], 'text': c['text'], 'design_ref': 'DESIGN.md section ' + c['design']},
                'level_note': c['note'],
                'technique': c['technique'],
            })
        else:
            man['not_applicable'].append({'property_id': p, 'reason': PENDING_REASON})
    out = os.path.join(HERE, 'MANIFEST.json')
    json.dump(man, open(out, 'w'), indent=1)
    try:
        import jsonschema
        jsonschema.validate(man, json.load(open('/root/.vp/MANIFEST.schema.json')))
        print('MANIFEST.json valid (%d checks, %d not_applicable)' % (len(man['checks']), len(man['not_applicable'])))
    except ImportError:
        print('MANIFEST.json written (jsonschema not importable here; not validated)')


if __name__ == '__main__':
    main()
