#!/usr/bin/env python3
"""Run checks against a seeded change:  tools/try_seed.py seeded/<id> [Cxx ...] [--tier quick|thorough]
Applies seeded/<id>/patch.diff to /repo (git apply), runs the named checks (default: the property in meta.json) with
evidence and replay output redirected to a scratch directory, and ALWAYS undoes the change (git checkout -- .) afterwards.
Exit 0 if every named check reported a VIOLATION (exit status 1), else 1."""
import os, sys, json, subprocess, tempfile, shutil

VERIF = os.path.dirname(os.path.dirname(os.path.abspath(__file__)))
REPO = '/repo'


def main():
    args = [a for a in sys.argv[1:] if not a.startswith('--')]
    tier = 'quick'
    if '--tier' in sys.argv:
        tier = sys.argv[sys.argv.index('--tier') + 1]
        args = [a for a in args if a != tier]
    d = args[0]
    patch = os.path.join(d, 'patch.diff') if os.path.isdir(d) else d
    props = args[1:]
    if not props and os.path.isdir(d) and os.path.exists(os.path.join(d, 'meta.json')):
        m = json.load(open(os.path.join(d, 'meta.json')))
        props = m.get('caught_by') or [m['property']]
    st = subprocess.run(['git', '-C', REPO, 'status', '--porcelain', '--untracked-files=no'], capture_output=True, text=True).stdout.strip()
    if st:
        print('refusing: /repo has uncommitted changes to tracked files:\n' + st)
        return 2
    tmp = tempfile.mkdtemp(prefix='lhverif.seed.', dir='/dev/shm')
    ok = True
    try:
        r = subprocess.run(['git', '-C', REPO, 'apply', os.path.abspath(patch)], capture_output=True, text=True)
        if r.returncode:
            print('patch does not apply:', r.stderr)
            return 2
        env = dict(os.environ, VERIF_EVIDENCE_DIR=os.path.join(tmp, 'ev'), VERIF_REPLAY_DIR=os.path.join(tmp, 'rp'))
        for p in props:
            r = subprocess.run([os.path.join(VERIF, 'run'), p, '--tier', tier], capture_output=True, text=True, env=env, cwd=VERIF)
            v = [l for l in r.stdout.splitlines() if l.startswith('VIOLATION')]
            keys = [l.strip() for l in r.stdout.splitlines() if l.strip().startswith('key=')]
            print('%s: exit=%d violations=%d' % (p, r.returncode, len(v)))
            for k in keys[:4]:
                print('    ' + k[:260])
            if r.returncode not in (0, 1):
                print('    ' + (r.stdout + r.stderr)[-800:].replace('\n', '\n    '))
            if not (r.returncode == 1 and v):
                ok = False
    finally:
        subprocess.run(['git', '-C', REPO, 'checkout', '--', '.'])
        shutil.rmtree(tmp, ignore_errors=True)
    return 0 if ok else 1


if __name__ == '__main__':
    sys.exit(main())
