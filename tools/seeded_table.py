#!/usr/bin/env python3
"""Regenerates the table of seeded changes in DESIGN.md (between the SEEDED-TABLE markers) from seeded/*/meta.json."""
import os, json, re
HERE = os.path.dirname(os.path.dirname(os.path.abspath(__file__)))
rows = []
for d in sorted(os.listdir(os.path.join(HERE, 'seeded'))):
    mp = os.path.join(HERE, 'seeded', d, 'meta.json')
    if not os.path.exists(mp):
        continue
    m = json.load(open(mp))
    def one(x, n):
        x = re.sub(r'\s+', ' ', str(x)).replace('|', '\\|')
        return x if len(x) <= n else x[:n - 1] + '…'
    hist = ' **' + one(m['history'], 400) + '**' if m.get('history') else ''
    rows.append('| `%s` | %s | %s | %s | %s%s |' % (d, m.get('property'), one(m.get('summary', ''), 260), one(m.get('needs_to_manifest', ''), 260),
                                                ', '.join(m.get('caught_by', [])) or 'NOT CAUGHT', hist))
table = ('<!-- SEEDED-TABLE-BEGIN -->\n| seeded change | property | what it does | what it needs to manifest | caught by (quick tier) |\n|---|---|---|---|---|\n'
         + '\n'.join(rows) + '\n\n%d changes; %d caught by the quick tier of the named check%s.\n<!-- SEEDED-TABLE-END -->'
         % (len(rows), sum(1 for r in rows if 'NOT CAUGHT' not in r), ''))
p = os.path.join(HERE, 'DESIGN.md')
s = open(p).read()
if 'SEEDED-TABLE-PLACEHOLDER' in s:
    s = s.replace('SEEDED-TABLE-PLACEHOLDER', table)
else:
    s = re.sub(r'<!-- SEEDED-TABLE-BEGIN -->.*?<!-- SEEDED-TABLE-END -->', lambda _: table, s, flags=re.S)
open(p, 'w').write(s)
print('%d rows' % len(rows))
