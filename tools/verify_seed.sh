#!/bin/bash
# verify_seed.sh <changed-worktree> <seed-dir> <clean-worktree>
# How every change under seeded/ was confirmed before it was kept: patch.diff equals the worktree's diff and applies to a clean
# checkout, the unedited suite passes on the changed tree, and the demonstration fails on the changed tree / passes on the clean one.
# (Run one at a time, or give each run its own TMPDIR: concurrent `make check` runs share /tmp/lhasa-test.* directories.)
wt=$1; sd=$2; clean=$3
git -C "$wt" diff > "$sd/.wtdiff"
if diff -q <(grep -v '^index ' "$sd/.wtdiff") <(grep -v '^index ' "$sd/patch.diff") >/dev/null; then echo "patch==worktree diff: yes"; else echo "patch==worktree diff: NO"; fi
rm -f "$sd/.wtdiff"
git -C "$clean" apply --check "$sd/patch.diff" && echo "applies to clean: yes"
( cd "$wt" && make -j4 >/dev/null 2>&1; make -j8 check 2>&1 | grep -E "^# (TOTAL|PASS|FAIL|ERROR)" | tr '\n' ' ' ); echo
chmod +x "$sd/demo.sh"
( cd "$sd" && timeout 600 ./demo.sh "$wt" >/dev/null 2>&1; echo "demo on the changed tree: rc=$? (must be non-zero)" )
( cd "$sd" && timeout 600 ./demo.sh "$clean" >/dev/null 2>&1; echo "demo on the clean tree: rc=$? (must be 0)" )
