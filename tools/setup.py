#!/usr/bin/env python3
"""MANIFEST.setup_cmd: offline sanity of the toolchain the checks need, plus the reference-model
self-checks that do not depend on /repo's code (only on its recorded corpus).  Builds nothing
persistent: every check rebuilds what it needs from /repo's working tree into /dev/shm."""
import os, sys, subprocess, shutil, tempfile
HERE = os.path.dirname(os.path.dirname(os.path.abspath(__file__)))
sys.path.insert(0, HERE)


def need(tool):
    if not shutil.which(tool):
        print('SETUP: missing tool', tool)
        sys.exit(1)


def main():
    for t in ('gcc', 'python3', 'setpriv', 'strace'):
        need(t)
    d = tempfile.mkdtemp(prefix='lhverif.setup.', dir='/dev/shm' if os.path.isdir('/dev/shm') else None)
    try:
        src = os.path.join(d, 't.c')
        open(src, 'w').write('#include <stdlib.h>\nint main(void){char *p=malloc(4);p[0]=1;free(p);return 0;}\n')
        for flags in (['-fsanitize=address', '-fsanitize=bounds,bounds-strict'], ['-fsanitize=thread']):
            r = subprocess.run(['gcc', '-g'] + flags + [src, '-o', os.path.join(d, 't')], capture_output=True, text=True)
            if r.returncode or subprocess.run([os.path.join(d, 't')]).returncode:
                print('SETUP: sanitizer build failed', flags, r.stderr[-500:])
                sys.exit(1)
    finally:
        shutil.rmtree(d, ignore_errors=True)
    from vlib.lhamodel import crc16
    try:
        from vlib.lhamodel import selfcheck
    except ImportError:
        selfcheck = None
    if selfcheck is not None:
        selfcheck.main(quick=True)
    print('SETUP ok')


if __name__ == '__main__':
    main()
